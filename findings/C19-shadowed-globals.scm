;; pattern shadowed-globals (1320 allocations, mode policy)
;; after the final full collection [731, 242] slots are allocated (values, vectors), before the pattern [8, 1]: 720 + 240 slots that nothing references were not reclaimed
(define (total-slots) (let ((s (#%verif-heap-stats))) (+ (list-ref s 0) (list-ref s 4))))
(define (garbage n) (if (= n 0) 0 (begin (box 'overwritten) (mutable-vector 'overwritten 'overwritten) (garbage (- n 1)))))
(struct mcell (v) #:mutable)
(struct wrap2 (a b))
(define (mk-box v) (box v))
(define (rd-box o) (unbox o))
(define (wr-box o v) (set-box! o v) 0)
(define (mk-vec v) (mutable-vector v 'pad))
(define (rd-vec o) (mut-vector-ref o 0))
(define (wr-vec o v) (vector-set! o 0 v) 0)
(define (mk-fld v) (mcell v))
(define (rd-fld o) (mcell-v o))
(define (wr-fld o v) (set-mcell-v! o v) 0)
(define (mk-var v) (let ((x v)) (lambda (m a) (if (eq? m 'get) x (begin (set! x a) 0)))))
(define (rd-var o) (o 'get 0))
(define (wr-var o v) (o 'set v))
(define (consume2 a mid) a)
(define (wr-box-any o v) (set-box! o v) 0)
(define (wr-vec-any o v) (vector-set! o 0 v) 0)
(define (wr-fld-any o v) (set-mcell-v! o v) 0)
(define (wr-var-any o v) (o 'set v))
(define (live) (let ((s (#%verif-heap-stats))) (list (- (list-ref s 0) (list-ref s 1)) (- (list-ref s 4) (list-ref s 5)))))
(define (run-chunks k chunk f acc) (if (= k 0) (reverse acc) (begin (f chunk) (run-chunks (- k 1) chunk f (cons (#%verif-heap-stats) acc)))))
(define (ring-box k) (let ((first (box 0))) (let loop ((i 1) (prev first)) (if (>= i k) (begin (set-box! prev first) 0) (let ((c (box 0))) (set-box! prev c) (loop (+ i 1) c))))))
(define (ring-vec k) (let ((first (mutable-vector 0 0))) (let loop ((i 1) (prev first)) (if (>= i k) (begin (vector-set! prev 0 first) 0) (let ((c (mutable-vector 0 0))) (vector-set! prev 0 c) (loop (+ i 1) c))))))
(define (ring-fld k) (let ((first (mcell 0))) (let loop ((i 1) (prev first)) (if (>= i k) (begin (set-mcell-v! prev first) 0) (let ((c (mcell 0))) (set-mcell-v! prev c) (loop (+ i 1) c))))))
(define (ring-mixed k) (let ((first (box 0))) (let loop ((i 1) (prev first)) (if (>= i k) (begin (set-box! prev (list 1 first)) 0) (let ((c (box 0))) (set-box! prev (mutable-vector (hash 'k c) 2)) (loop (+ i 1) c))))))
(define kk #f)
(define (capt) (let ((x (box 1)) (y (mutable-vector 1 2))) (call/cc (lambda (c) (set! kk c))) (set-box! x kk) 0))
(define (mklist n) (if (= n 0) '() (cons (box n) (mklist (- n 1)))))
0
;;;---
(#%gc-collect)
(define base (live))
base
;;;---
(define shadowed-g (list (box 0) (mutable-vector 0) (box (box 0))))
;;;---
(define shadowed-g (list (box 1) (mutable-vector 1) (box (box 1))))
;;;---
(define shadowed-g (list (box 2) (mutable-vector 2) (box (box 2))))
;;;---
(define shadowed-g (list (box 3) (mutable-vector 3) (box (box 3))))
;;;---
(define shadowed-g (list (box 4) (mutable-vector 4) (box (box 4))))
;;;---
(define shadowed-g (list (box 5) (mutable-vector 5) (box (box 5))))
;;;---
(define shadowed-g (list (box 6) (mutable-vector 6) (box (box 6))))
;;;---
(define shadowed-g (list (box 7) (mutable-vector 7) (box (box 7))))
;;;---
(define shadowed-g (list (box 8) (mutable-vector 8) (box (box 8))))
;;;---
(define shadowed-g (list (box 9) (mutable-vector 9) (box (box 9))))
;;;---
(define shadowed-g (list (box 10) (mutable-vector 10) (box (box 10))))
;;;---
(define shadowed-g (list (box 11) (mutable-vector 11) (box (box 11))))
;;;---
(define shadowed-g (list (box 12) (mutable-vector 12) (box (box 12))))
;;;---
(define shadowed-g (list (box 13) (mutable-vector 13) (box (box 13))))
;;;---
(define shadowed-g (list (box 14) (mutable-vector 14) (box (box 14))))
;;;---
(define shadowed-g (list (box 15) (mutable-vector 15) (box (box 15))))
;;;---
(define shadowed-g (list (box 16) (mutable-vector 16) (box (box 16))))
;;;---
(define shadowed-g (list (box 17) (mutable-vector 17) (box (box 17))))
;;;---
(define shadowed-g (list (box 18) (mutable-vector 18) (box (box 18))))
;;;---
(define shadowed-g (list (box 19) (mutable-vector 19) (box (box 19))))
;;;---
(define shadowed-g (list (box 20) (mutable-vector 20) (box (box 20))))
;;;---
(define shadowed-g (list (box 21) (mutable-vector 21) (box (box 21))))
;;;---
(define shadowed-g (list (box 22) (mutable-vector 22) (box (box 22))))
;;;---
(define shadowed-g (list (box 23) (mutable-vector 23) (box (box 23))))
;;;---
(define shadowed-g (list (box 24) (mutable-vector 24) (box (box 24))))
;;;---
(define shadowed-g (list (box 25) (mutable-vector 25) (box (box 25))))
;;;---
(define shadowed-g (list (box 26) (mutable-vector 26) (box (box 26))))
;;;---
(define shadowed-g (list (box 27) (mutable-vector 27) (box (box 27))))
;;;---
(define shadowed-g (list (box 28) (mutable-vector 28) (box (box 28))))
;;;---
(define shadowed-g (list (box 29) (mutable-vector 29) (box (box 29))))
;;;---
(define shadowed-g (list (box 30) (mutable-vector 30) (box (box 30))))
;;;---
(define shadowed-g (list (box 31) (mutable-vector 31) (box (box 31))))
;;;---
(define shadowed-g (list (box 32) (mutable-vector 32) (box (box 32))))
;;;---
(define shadowed-g (list (box 33) (mutable-vector 33) (box (box 33))))
;;;---
(define shadowed-g (list (box 34) (mutable-vector 34) (box (box 34))))
;;;---
(define shadowed-g (list (box 35) (mutable-vector 35) (box (box 35))))
;;;---
(define shadowed-g (list (box 36) (mutable-vector 36) (box (box 36))))
;;;---
(define shadowed-g (list (box 37) (mutable-vector 37) (box (box 37))))
;;;---
(define shadowed-g (list (box 38) (mutable-vector 38) (box (box 38))))
;;;---
(define shadowed-g (list (box 39) (mutable-vector 39) (box (box 39))))
;;;---
(define shadowed-g (list (box 40) (mutable-vector 40) (box (box 40))))
;;;---
(define shadowed-g (list (box 41) (mutable-vector 41) (box (box 41))))
;;;---
(define shadowed-g (list (box 42) (mutable-vector 42) (box (box 42))))
;;;---
(define shadowed-g (list (box 43) (mutable-vector 43) (box (box 43))))
;;;---
(define shadowed-g (list (box 44) (mutable-vector 44) (box (box 44))))
;;;---
(define shadowed-g (list (box 45) (mutable-vector 45) (box (box 45))))
;;;---
(define shadowed-g (list (box 46) (mutable-vector 46) (box (box 46))))
;;;---
(define shadowed-g (list (box 47) (mutable-vector 47) (box (box 47))))
;;;---
(define shadowed-g (list (box 48) (mutable-vector 48) (box (box 48))))
;;;---
(define shadowed-g (list (box 49) (mutable-vector 49) (box (box 49))))
;;;---
(define shadowed-g (list (box 50) (mutable-vector 50) (box (box 50))))
;;;---
(define shadowed-g (list (box 51) (mutable-vector 51) (box (box 51))))
;;;---
(define shadowed-g (list (box 52) (mutable-vector 52) (box (box 52))))
;;;---
(define shadowed-g (list (box 53) (mutable-vector 53) (box (box 53))))
;;;---
(define shadowed-g (list (box 54) (mutable-vector 54) (box (box 54))))
;;;---
(define shadowed-g (list (box 55) (mutable-vector 55) (box (box 55))))
;;;---
(define shadowed-g (list (box 56) (mutable-vector 56) (box (box 56))))
;;;---
(define shadowed-g (list (box 57) (mutable-vector 57) (box (box 57))))
;;;---
(define shadowed-g (list (box 58) (mutable-vector 58) (box (box 58))))
;;;---
(define shadowed-g (list (box 59) (mutable-vector 59) (box (box 59))))
;;;---
(define shadowed-g (list (box 60) (mutable-vector 60) (box (box 60))))
;;;---
(define shadowed-g (list (box 61) (mutable-vector 61) (box (box 61))))
;;;---
(define shadowed-g (list (box 62) (mutable-vector 62) (box (box 62))))
;;;---
(define shadowed-g (list (box 63) (mutable-vector 63) (box (box 63))))
;;;---
(define shadowed-g (list (box 64) (mutable-vector 64) (box (box 64))))
;;;---
(define shadowed-g (list (box 65) (mutable-vector 65) (box (box 65))))
;;;---
(define shadowed-g (list (box 66) (mutable-vector 66) (box (box 66))))
;;;---
(define shadowed-g (list (box 67) (mutable-vector 67) (box (box 67))))
;;;---
(define shadowed-g (list (box 68) (mutable-vector 68) (box (box 68))))
;;;---
(define shadowed-g (list (box 69) (mutable-vector 69) (box (box 69))))
;;;---
(define shadowed-g (list (box 70) (mutable-vector 70) (box (box 70))))
;;;---
(define shadowed-g (list (box 71) (mutable-vector 71) (box (box 71))))
;;;---
(define shadowed-g (list (box 72) (mutable-vector 72) (box (box 72))))
;;;---
(define shadowed-g (list (box 73) (mutable-vector 73) (box (box 73))))
;;;---
(define shadowed-g (list (box 74) (mutable-vector 74) (box (box 74))))
;;;---
(define shadowed-g (list (box 75) (mutable-vector 75) (box (box 75))))
;;;---
(define shadowed-g (list (box 76) (mutable-vector 76) (box (box 76))))
;;;---
(define shadowed-g (list (box 77) (mutable-vector 77) (box (box 77))))
;;;---
(define shadowed-g (list (box 78) (mutable-vector 78) (box (box 78))))
;;;---
(define shadowed-g (list (box 79) (mutable-vector 79) (box (box 79))))
;;;---
(define shadowed-g (list (box 80) (mutable-vector 80) (box (box 80))))
;;;---
(define shadowed-g (list (box 81) (mutable-vector 81) (box (box 81))))
;;;---
(define shadowed-g (list (box 82) (mutable-vector 82) (box (box 82))))
;;;---
(define shadowed-g (list (box 83) (mutable-vector 83) (box (box 83))))
;;;---
(define shadowed-g (list (box 84) (mutable-vector 84) (box (box 84))))
;;;---
(define shadowed-g (list (box 85) (mutable-vector 85) (box (box 85))))
;;;---
(define shadowed-g (list (box 86) (mutable-vector 86) (box (box 86))))
;;;---
(define shadowed-g (list (box 87) (mutable-vector 87) (box (box 87))))
;;;---
(define shadowed-g (list (box 88) (mutable-vector 88) (box (box 88))))
;;;---
(define shadowed-g (list (box 89) (mutable-vector 89) (box (box 89))))
;;;---
(define shadowed-g (list (box 90) (mutable-vector 90) (box (box 90))))
;;;---
(define shadowed-g (list (box 91) (mutable-vector 91) (box (box 91))))
;;;---
(define shadowed-g (list (box 92) (mutable-vector 92) (box (box 92))))
;;;---
(define shadowed-g (list (box 93) (mutable-vector 93) (box (box 93))))
;;;---
(define shadowed-g (list (box 94) (mutable-vector 94) (box (box 94))))
;;;---
(define shadowed-g (list (box 95) (mutable-vector 95) (box (box 95))))
;;;---
(define shadowed-g (list (box 96) (mutable-vector 96) (box (box 96))))
;;;---
(define shadowed-g (list (box 97) (mutable-vector 97) (box (box 97))))
;;;---
(define shadowed-g (list (box 98) (mutable-vector 98) (box (box 98))))
;;;---
(define shadowed-g (list (box 99) (mutable-vector 99) (box (box 99))))
;;;---
(define shadowed-g (list (box 100) (mutable-vector 100) (box (box 100))))
;;;---
(define shadowed-g (list (box 101) (mutable-vector 101) (box (box 101))))
;;;---
(define shadowed-g (list (box 102) (mutable-vector 102) (box (box 102))))
;;;---
(define shadowed-g (list (box 103) (mutable-vector 103) (box (box 103))))
;;;---
(define shadowed-g (list (box 104) (mutable-vector 104) (box (box 104))))
;;;---
(define shadowed-g (list (box 105) (mutable-vector 105) (box (box 105))))
;;;---
(define shadowed-g (list (box 106) (mutable-vector 106) (box (box 106))))
;;;---
(define shadowed-g (list (box 107) (mutable-vector 107) (box (box 107))))
;;;---
(define shadowed-g (list (box 108) (mutable-vector 108) (box (box 108))))
;;;---
(define shadowed-g (list (box 109) (mutable-vector 109) (box (box 109))))
;;;---
(define shadowed-g (list (box 110) (mutable-vector 110) (box (box 110))))
;;;---
(define shadowed-g (list (box 111) (mutable-vector 111) (box (box 111))))
;;;---
(define shadowed-g (list (box 112) (mutable-vector 112) (box (box 112))))
;;;---
(define shadowed-g (list (box 113) (mutable-vector 113) (box (box 113))))
;;;---
(define shadowed-g (list (box 114) (mutable-vector 114) (box (box 114))))
;;;---
(define shadowed-g (list (box 115) (mutable-vector 115) (box (box 115))))
;;;---
(define shadowed-g (list (box 116) (mutable-vector 116) (box (box 116))))
;;;---
(define shadowed-g (list (box 117) (mutable-vector 117) (box (box 117))))
;;;---
(define shadowed-g (list (box 118) (mutable-vector 118) (box (box 118))))
;;;---
(define shadowed-g (list (box 119) (mutable-vector 119) (box (box 119))))
;;;---
(define shadowed-g (list (box 120) (mutable-vector 120) (box (box 120))))
;;;---
(define shadowed-g (list (box 121) (mutable-vector 121) (box (box 121))))
;;;---
(define shadowed-g (list (box 122) (mutable-vector 122) (box (box 122))))
;;;---
(define shadowed-g (list (box 123) (mutable-vector 123) (box (box 123))))
;;;---
(define shadowed-g (list (box 124) (mutable-vector 124) (box (box 124))))
;;;---
(define shadowed-g (list (box 125) (mutable-vector 125) (box (box 125))))
;;;---
(define shadowed-g (list (box 126) (mutable-vector 126) (box (box 126))))
;;;---
(define shadowed-g (list (box 127) (mutable-vector 127) (box (box 127))))
;;;---
(define shadowed-g (list (box 128) (mutable-vector 128) (box (box 128))))
;;;---
(define shadowed-g (list (box 129) (mutable-vector 129) (box (box 129))))
;;;---
(define shadowed-g (list (box 130) (mutable-vector 130) (box (box 130))))
;;;---
(define shadowed-g (list (box 131) (mutable-vector 131) (box (box 131))))
;;;---
(define shadowed-g (list (box 132) (mutable-vector 132) (box (box 132))))
;;;---
(define shadowed-g (list (box 133) (mutable-vector 133) (box (box 133))))
;;;---
(define shadowed-g (list (box 134) (mutable-vector 134) (box (box 134))))
;;;---
(define shadowed-g (list (box 135) (mutable-vector 135) (box (box 135))))
;;;---
(define shadowed-g (list (box 136) (mutable-vector 136) (box (box 136))))
;;;---
(define shadowed-g (list (box 137) (mutable-vector 137) (box (box 137))))
;;;---
(define shadowed-g (list (box 138) (mutable-vector 138) (box (box 138))))
;;;---
(define shadowed-g (list (box 139) (mutable-vector 139) (box (box 139))))
;;;---
(define shadowed-g (list (box 140) (mutable-vector 140) (box (box 140))))
;;;---
(define shadowed-g (list (box 141) (mutable-vector 141) (box (box 141))))
;;;---
(define shadowed-g (list (box 142) (mutable-vector 142) (box (box 142))))
;;;---
(define shadowed-g (list (box 143) (mutable-vector 143) (box (box 143))))
;;;---
(define shadowed-g (list (box 144) (mutable-vector 144) (box (box 144))))
;;;---
(define shadowed-g (list (box 145) (mutable-vector 145) (box (box 145))))
;;;---
(define shadowed-g (list (box 146) (mutable-vector 146) (box (box 146))))
;;;---
(define shadowed-g (list (box 147) (mutable-vector 147) (box (box 147))))
;;;---
(define shadowed-g (list (box 148) (mutable-vector 148) (box (box 148))))
;;;---
(define shadowed-g (list (box 149) (mutable-vector 149) (box (box 149))))
;;;---
(define shadowed-g (list (box 150) (mutable-vector 150) (box (box 150))))
;;;---
(define shadowed-g (list (box 151) (mutable-vector 151) (box (box 151))))
;;;---
(define shadowed-g (list (box 152) (mutable-vector 152) (box (box 152))))
;;;---
(define shadowed-g (list (box 153) (mutable-vector 153) (box (box 153))))
;;;---
(define shadowed-g (list (box 154) (mutable-vector 154) (box (box 154))))
;;;---
(define shadowed-g (list (box 155) (mutable-vector 155) (box (box 155))))
;;;---
(define shadowed-g (list (box 156) (mutable-vector 156) (box (box 156))))
;;;---
(define shadowed-g (list (box 157) (mutable-vector 157) (box (box 157))))
;;;---
(define shadowed-g (list (box 158) (mutable-vector 158) (box (box 158))))
;;;---
(define shadowed-g (list (box 159) (mutable-vector 159) (box (box 159))))
;;;---
(define shadowed-g (list (box 160) (mutable-vector 160) (box (box 160))))
;;;---
(define shadowed-g (list (box 161) (mutable-vector 161) (box (box 161))))
;;;---
(define shadowed-g (list (box 162) (mutable-vector 162) (box (box 162))))
;;;---
(define shadowed-g (list (box 163) (mutable-vector 163) (box (box 163))))
;;;---
(define shadowed-g (list (box 164) (mutable-vector 164) (box (box 164))))
;;;---
(define shadowed-g (list (box 165) (mutable-vector 165) (box (box 165))))
;;;---
(define shadowed-g (list (box 166) (mutable-vector 166) (box (box 166))))
;;;---
(define shadowed-g (list (box 167) (mutable-vector 167) (box (box 167))))
;;;---
(define shadowed-g (list (box 168) (mutable-vector 168) (box (box 168))))
;;;---
(define shadowed-g (list (box 169) (mutable-vector 169) (box (box 169))))
;;;---
(define shadowed-g (list (box 170) (mutable-vector 170) (box (box 170))))
;;;---
(define shadowed-g (list (box 171) (mutable-vector 171) (box (box 171))))
;;;---
(define shadowed-g (list (box 172) (mutable-vector 172) (box (box 172))))
;;;---
(define shadowed-g (list (box 173) (mutable-vector 173) (box (box 173))))
;;;---
(define shadowed-g (list (box 174) (mutable-vector 174) (box (box 174))))
;;;---
(define shadowed-g (list (box 175) (mutable-vector 175) (box (box 175))))
;;;---
(define shadowed-g (list (box 176) (mutable-vector 176) (box (box 176))))
;;;---
(define shadowed-g (list (box 177) (mutable-vector 177) (box (box 177))))
;;;---
(define shadowed-g (list (box 178) (mutable-vector 178) (box (box 178))))
;;;---
(define shadowed-g (list (box 179) (mutable-vector 179) (box (box 179))))
;;;---
(define shadowed-g (list (box 180) (mutable-vector 180) (box (box 180))))
;;;---
(define shadowed-g (list (box 181) (mutable-vector 181) (box (box 181))))
;;;---
(define shadowed-g (list (box 182) (mutable-vector 182) (box (box 182))))
;;;---
(define shadowed-g (list (box 183) (mutable-vector 183) (box (box 183))))
;;;---
(define shadowed-g (list (box 184) (mutable-vector 184) (box (box 184))))
;;;---
(define shadowed-g (list (box 185) (mutable-vector 185) (box (box 185))))
;;;---
(define shadowed-g (list (box 186) (mutable-vector 186) (box (box 186))))
;;;---
(define shadowed-g (list (box 187) (mutable-vector 187) (box (box 187))))
;;;---
(define shadowed-g (list (box 188) (mutable-vector 188) (box (box 188))))
;;;---
(define shadowed-g (list (box 189) (mutable-vector 189) (box (box 189))))
;;;---
(define shadowed-g (list (box 190) (mutable-vector 190) (box (box 190))))
;;;---
(define shadowed-g (list (box 191) (mutable-vector 191) (box (box 191))))
;;;---
(define shadowed-g (list (box 192) (mutable-vector 192) (box (box 192))))
;;;---
(define shadowed-g (list (box 193) (mutable-vector 193) (box (box 193))))
;;;---
(define shadowed-g (list (box 194) (mutable-vector 194) (box (box 194))))
;;;---
(define shadowed-g (list (box 195) (mutable-vector 195) (box (box 195))))
;;;---
(define shadowed-g (list (box 196) (mutable-vector 196) (box (box 196))))
;;;---
(define shadowed-g (list (box 197) (mutable-vector 197) (box (box 197))))
;;;---
(define shadowed-g (list (box 198) (mutable-vector 198) (box (box 198))))
;;;---
(define shadowed-g (list (box 199) (mutable-vector 199) (box (box 199))))
;;;---
(define shadowed-g (list (box 200) (mutable-vector 200) (box (box 200))))
;;;---
(define shadowed-g (list (box 201) (mutable-vector 201) (box (box 201))))
;;;---
(define shadowed-g (list (box 202) (mutable-vector 202) (box (box 202))))
;;;---
(define shadowed-g (list (box 203) (mutable-vector 203) (box (box 203))))
;;;---
(define shadowed-g (list (box 204) (mutable-vector 204) (box (box 204))))
;;;---
(define shadowed-g (list (box 205) (mutable-vector 205) (box (box 205))))
;;;---
(define shadowed-g (list (box 206) (mutable-vector 206) (box (box 206))))
;;;---
(define shadowed-g (list (box 207) (mutable-vector 207) (box (box 207))))
;;;---
(define shadowed-g (list (box 208) (mutable-vector 208) (box (box 208))))
;;;---
(define shadowed-g (list (box 209) (mutable-vector 209) (box (box 209))))
;;;---
(define shadowed-g (list (box 210) (mutable-vector 210) (box (box 210))))
;;;---
(define shadowed-g (list (box 211) (mutable-vector 211) (box (box 211))))
;;;---
(define shadowed-g (list (box 212) (mutable-vector 212) (box (box 212))))
;;;---
(define shadowed-g (list (box 213) (mutable-vector 213) (box (box 213))))
;;;---
(define shadowed-g (list (box 214) (mutable-vector 214) (box (box 214))))
;;;---
(define shadowed-g (list (box 215) (mutable-vector 215) (box (box 215))))
;;;---
(define shadowed-g (list (box 216) (mutable-vector 216) (box (box 216))))
;;;---
(define shadowed-g (list (box 217) (mutable-vector 217) (box (box 217))))
;;;---
(define shadowed-g (list (box 218) (mutable-vector 218) (box (box 218))))
;;;---
(define shadowed-g (list (box 219) (mutable-vector 219) (box (box 219))))
;;;---
(define shadowed-g (list (box 220) (mutable-vector 220) (box (box 220))))
;;;---
(define shadowed-g (list (box 221) (mutable-vector 221) (box (box 221))))
;;;---
(define shadowed-g (list (box 222) (mutable-vector 222) (box (box 222))))
;;;---
(define shadowed-g (list (box 223) (mutable-vector 223) (box (box 223))))
;;;---
(define shadowed-g (list (box 224) (mutable-vector 224) (box (box 224))))
;;;---
(define shadowed-g (list (box 225) (mutable-vector 225) (box (box 225))))
;;;---
(define shadowed-g (list (box 226) (mutable-vector 226) (box (box 226))))
;;;---
(define shadowed-g (list (box 227) (mutable-vector 227) (box (box 227))))
;;;---
(define shadowed-g (list (box 228) (mutable-vector 228) (box (box 228))))
;;;---
(define shadowed-g (list (box 229) (mutable-vector 229) (box (box 229))))
;;;---
(define shadowed-g (list (box 230) (mutable-vector 230) (box (box 230))))
;;;---
(define shadowed-g (list (box 231) (mutable-vector 231) (box (box 231))))
;;;---
(define shadowed-g (list (box 232) (mutable-vector 232) (box (box 232))))
;;;---
(define shadowed-g (list (box 233) (mutable-vector 233) (box (box 233))))
;;;---
(define shadowed-g (list (box 234) (mutable-vector 234) (box (box 234))))
;;;---
(define shadowed-g (list (box 235) (mutable-vector 235) (box (box 235))))
;;;---
(define shadowed-g (list (box 236) (mutable-vector 236) (box (box 236))))
;;;---
(define shadowed-g (list (box 237) (mutable-vector 237) (box (box 237))))
;;;---
(define shadowed-g (list (box 238) (mutable-vector 238) (box (box 238))))
;;;---
(define shadowed-g (list (box 239) (mutable-vector 239) (box (box 239))))
;;;---
(define shadowed-g (list (box 240) (mutable-vector 240) (box (box 240))))
;;;---
(define shadowed-g (list (box 241) (mutable-vector 241) (box (box 241))))
;;;---
(define shadowed-g (list (box 242) (mutable-vector 242) (box (box 242))))
;;;---
(define shadowed-g (list (box 243) (mutable-vector 243) (box (box 243))))
;;;---
(define shadowed-g (list (box 244) (mutable-vector 244) (box (box 244))))
;;;---
(define shadowed-g (list (box 245) (mutable-vector 245) (box (box 245))))
;;;---
(define shadowed-g (list (box 246) (mutable-vector 246) (box (box 246))))
;;;---
(define shadowed-g (list (box 247) (mutable-vector 247) (box (box 247))))
;;;---
(define shadowed-g (list (box 248) (mutable-vector 248) (box (box 248))))
;;;---
(define shadowed-g (list (box 249) (mutable-vector 249) (box (box 249))))
;;;---
(define shadowed-g (list (box 250) (mutable-vector 250) (box (box 250))))
;;;---
(define shadowed-g (list (box 251) (mutable-vector 251) (box (box 251))))
;;;---
(define shadowed-g (list (box 252) (mutable-vector 252) (box (box 252))))
;;;---
(define shadowed-g (list (box 253) (mutable-vector 253) (box (box 253))))
;;;---
(define shadowed-g (list (box 254) (mutable-vector 254) (box (box 254))))
;;;---
(define shadowed-g (list (box 255) (mutable-vector 255) (box (box 255))))
;;;---
(define shadowed-g (list (box 256) (mutable-vector 256) (box (box 256))))
;;;---
(define shadowed-g (list (box 257) (mutable-vector 257) (box (box 257))))
;;;---
(define shadowed-g (list (box 258) (mutable-vector 258) (box (box 258))))
;;;---
(define shadowed-g (list (box 259) (mutable-vector 259) (box (box 259))))
;;;---
(define shadowed-g (list (box 260) (mutable-vector 260) (box (box 260))))
;;;---
(define shadowed-g (list (box 261) (mutable-vector 261) (box (box 261))))
;;;---
(define shadowed-g (list (box 262) (mutable-vector 262) (box (box 262))))
;;;---
(define shadowed-g (list (box 263) (mutable-vector 263) (box (box 263))))
;;;---
(define shadowed-g (list (box 264) (mutable-vector 264) (box (box 264))))
;;;---
(define shadowed-g (list (box 265) (mutable-vector 265) (box (box 265))))
;;;---
(define shadowed-g (list (box 266) (mutable-vector 266) (box (box 266))))
;;;---
(define shadowed-g (list (box 267) (mutable-vector 267) (box (box 267))))
;;;---
(define shadowed-g (list (box 268) (mutable-vector 268) (box (box 268))))
;;;---
(define shadowed-g (list (box 269) (mutable-vector 269) (box (box 269))))
;;;---
(define shadowed-g (list (box 270) (mutable-vector 270) (box (box 270))))
;;;---
(define shadowed-g (list (box 271) (mutable-vector 271) (box (box 271))))
;;;---
(define shadowed-g (list (box 272) (mutable-vector 272) (box (box 272))))
;;;---
(define shadowed-g (list (box 273) (mutable-vector 273) (box (box 273))))
;;;---
(define shadowed-g (list (box 274) (mutable-vector 274) (box (box 274))))
;;;---
(define shadowed-g (list (box 275) (mutable-vector 275) (box (box 275))))
;;;---
(define shadowed-g (list (box 276) (mutable-vector 276) (box (box 276))))
;;;---
(define shadowed-g (list (box 277) (mutable-vector 277) (box (box 277))))
;;;---
(define shadowed-g (list (box 278) (mutable-vector 278) (box (box 278))))
;;;---
(define shadowed-g (list (box 279) (mutable-vector 279) (box (box 279))))
;;;---
(define shadowed-g (list (box 280) (mutable-vector 280) (box (box 280))))
;;;---
(define shadowed-g (list (box 281) (mutable-vector 281) (box (box 281))))
;;;---
(define shadowed-g (list (box 282) (mutable-vector 282) (box (box 282))))
;;;---
(define shadowed-g (list (box 283) (mutable-vector 283) (box (box 283))))
;;;---
(define shadowed-g (list (box 284) (mutable-vector 284) (box (box 284))))
;;;---
(define shadowed-g (list (box 285) (mutable-vector 285) (box (box 285))))
;;;---
(define shadowed-g (list (box 286) (mutable-vector 286) (box (box 286))))
;;;---
(define shadowed-g (list (box 287) (mutable-vector 287) (box (box 287))))
;;;---
(define shadowed-g (list (box 288) (mutable-vector 288) (box (box 288))))
;;;---
(define shadowed-g (list (box 289) (mutable-vector 289) (box (box 289))))
;;;---
(define shadowed-g (list (box 290) (mutable-vector 290) (box (box 290))))
;;;---
(define shadowed-g (list (box 291) (mutable-vector 291) (box (box 291))))
;;;---
(define shadowed-g (list (box 292) (mutable-vector 292) (box (box 292))))
;;;---
(define shadowed-g (list (box 293) (mutable-vector 293) (box (box 293))))
;;;---
(define shadowed-g (list (box 294) (mutable-vector 294) (box (box 294))))
;;;---
(define shadowed-g (list (box 295) (mutable-vector 295) (box (box 295))))
;;;---
(define shadowed-g (list (box 296) (mutable-vector 296) (box (box 296))))
;;;---
(define shadowed-g (list (box 297) (mutable-vector 297) (box (box 297))))
;;;---
(define shadowed-g (list (box 298) (mutable-vector 298) (box (box 298))))
;;;---
(define shadowed-g (list (box 299) (mutable-vector 299) (box (box 299))))
;;;---
(define shadowed-g (list (box 300) (mutable-vector 300) (box (box 300))))
;;;---
(define shadowed-g (list (box 301) (mutable-vector 301) (box (box 301))))
;;;---
(define shadowed-g (list (box 302) (mutable-vector 302) (box (box 302))))
;;;---
(define shadowed-g (list (box 303) (mutable-vector 303) (box (box 303))))
;;;---
(define shadowed-g (list (box 304) (mutable-vector 304) (box (box 304))))
;;;---
(define shadowed-g (list (box 305) (mutable-vector 305) (box (box 305))))
;;;---
(define shadowed-g (list (box 306) (mutable-vector 306) (box (box 306))))
;;;---
(define shadowed-g (list (box 307) (mutable-vector 307) (box (box 307))))
;;;---
(define shadowed-g (list (box 308) (mutable-vector 308) (box (box 308))))
;;;---
(define shadowed-g (list (box 309) (mutable-vector 309) (box (box 309))))
;;;---
(define shadowed-g (list (box 310) (mutable-vector 310) (box (box 310))))
;;;---
(define shadowed-g (list (box 311) (mutable-vector 311) (box (box 311))))
;;;---
(define shadowed-g (list (box 312) (mutable-vector 312) (box (box 312))))
;;;---
(define shadowed-g (list (box 313) (mutable-vector 313) (box (box 313))))
;;;---
(define shadowed-g (list (box 314) (mutable-vector 314) (box (box 314))))
;;;---
(define shadowed-g (list (box 315) (mutable-vector 315) (box (box 315))))
;;;---
(define shadowed-g (list (box 316) (mutable-vector 316) (box (box 316))))
;;;---
(define shadowed-g (list (box 317) (mutable-vector 317) (box (box 317))))
;;;---
(define shadowed-g (list (box 318) (mutable-vector 318) (box (box 318))))
;;;---
(define shadowed-g (list (box 319) (mutable-vector 319) (box (box 319))))
;;;---
(define shadowed-g (list (box 320) (mutable-vector 320) (box (box 320))))
;;;---
(define shadowed-g (list (box 321) (mutable-vector 321) (box (box 321))))
;;;---
(define shadowed-g (list (box 322) (mutable-vector 322) (box (box 322))))
;;;---
(define shadowed-g (list (box 323) (mutable-vector 323) (box (box 323))))
;;;---
(define shadowed-g (list (box 324) (mutable-vector 324) (box (box 324))))
;;;---
(define shadowed-g (list (box 325) (mutable-vector 325) (box (box 325))))
;;;---
(define shadowed-g (list (box 326) (mutable-vector 326) (box (box 326))))
;;;---
(define shadowed-g (list (box 327) (mutable-vector 327) (box (box 327))))
;;;---
(define shadowed-g (list (box 328) (mutable-vector 328) (box (box 328))))
;;;---
(define shadowed-g (list (box 329) (mutable-vector 329) (box (box 329))))
;;;---
(#%verif-heap-stats)
;;;---
(#%gc-collect)
(list base (live))
