;;! C18 case: shape=cycle:box/list op=host-display size=1
;;! stack=main bound=20
;;! verdict: (witness of finding K18j) — printing a cycle through a box inside a list panics (Option::unwrap on None in CycleDetector::start_format: the label is looked up under the content's address, recorded under the slot's)
;;! model: display_cycle_label_lookup
;;! replay: ./check C18 --replay <this file>   (pieces are separated by the line ;;;---)
(struct node (next) #:transparent)
(struct mnode (next) #:mutable #:transparent)
(define d0 (box 0))
(set-box! d0 (list 1 d0))
(define d d0)

;;;---
;;;host-display d
