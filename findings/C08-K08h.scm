; finding: property=C08 id=K08h class=continuation_invoked_by_a_later_evaluation_than_the_one_that_captured_it replay=findings/C08-K08h.scm use after free: frames and continuations refer to the instructions of their top-level form by raw pointer (RootedInstructions, feature rooted-instructions); SteelThread::execute keeps them alive only while the form runs and the executable is dropped at the end of the evaluation, so a continuation stored in a global and invoked by a LATER evaluation on the same engine (REPL, repeated Engine::run) resumes in freed memory: of 160 generated histories that do this 106 go wrong — panic (Option::unwrap on None in handle_read_captures, subtract with overflow), hang, abort, wrong value; in ONE evaluation the same forms give 11 / (in out); fix: /verif/.build/C08/proposed-continuation-keeps-root-instructions.diff
(define tr '())
(define (note x) (set! tr (cons x tr)) x)
(define g1 #f)
;;;---
(+ 1 (call/cc (lambda (k) (set! g1 k) 1)))
;;;---
(dynamic-wind (lambda () (note 'in)) (lambda () (g1 10)) (lambda () (note 'out)))
;;;---
(reverse tr)
;;;===
(define g1 #f)
;;;---
(+ 1 (call/cc (lambda (k) (set! g1 k) 1)))
;;;---
(call-with-exception-handler (lambda (e) 0) (lambda () (+ 1 (g1 10))))
;;;---
(define (f) (+ 1 (g1 10)))
(f)
