; fixed: property=C08 2efff3d7 (was finding K08h: a continuation invoked by a later evaluation than the one that captured it resumed in the freed instructions of its top-level form — use after free: panic, hang, abort, wrong value; continuations now keep the instructions alive); kept as regression programs
(define tr '())
(define (note x) (set! tr (cons x tr)) x)
(define g1 #f)
;;;---
(+ 1 (call/cc (lambda (k) (set! g1 k) 1)))
;;;---
(dynamic-wind (lambda () (note 'in)) (lambda () (g1 10)) (lambda () (note 'out)))
;;;---
(reverse tr)
;;;===
(define g1 #f)
;;;---
(+ 1 (call/cc (lambda (k) (set! g1 k) 1)))
;;;---
(call-with-exception-handler (lambda (e) 0) (lambda () (+ 1 (g1 10))))
;;;---
(define (f) (+ 1 (g1 10)))
(f)
