# configuration: nojit {'STEEL_JIT': 'false'}
# real engine  : ('panic', 'index out of bounds: the len is 1 but the index is 1 @ vm.rs:4417') output=''
# specification: ('err', 'err') output='' events={'capture': 5, 'invoke': 0, 'leave': 0, 'reenter': 0, 'enter': 3, 'exit': 1, 'exit-error': 2, 'handled': 1, 'reset': 0, 'shift': 0, 'dinvoke': 0, 'd12': 0, 'mc-cross': 0, 'orphan-invoke': 0}
# faithful variant (impl): ('err', 'err')
(define tr '())
(define (note x) (set! tr (cons x tr)) x)
(define budget 3)
(define (again?) (if (> budget 0) (begin (set! budget (- budget 1)) #t) #f))
(define g1 #f)
(define g2 #f)
(define g3 #f)
(define bx (box #f))
(let ((x1 (if (and (procedure? g3) (again?)) (g3 -3) (if (< (apply + (map (lambda (x2) 3) (list 2 0 10))) 3) (note -1) (dynamic-wind (lambda () (note 'in-w3)) (lambda () 5) (lambda () (note 'out-w3))))))) (let ((c (unbox bx))) (if (and (procedure? c) (again?)) (c 1) (with-handler (lambda (e) (begin (note 'h4) (with-handler (lambda (e) (begin (note 'h5) x1)) 20))) (call/cc (lambda (k6) 0))))))
(note (- (begin (note 's7) (begin 1 -1)) (call-with-exception-handler (lambda (e) (begin (note 'h8) (call/cc (lambda (k9) 5)))) (lambda () (car -3)))))
(apply + (transduce (list 4 1) (mapping (lambda (x10) (call/cc (lambda (k11) x10)))) (into-list)))
(dynamic-wind (lambda () (begin (note 'in-w15) (note (- 7 (call/cc (lambda (k16) 2)))))) (lambda () (dynamic-wind (lambda () (begin (note 'in-w13) (note (+ (with-handler (lambda (e) (begin (note 'h14) 7)) 1) (if (and (procedure? g3) (again?)) (g3 10) 20))))) (lambda () (error "e12")) (lambda () (note 'out-w13)))) (lambda () (note 'out-w15)))
(reverse tr)
