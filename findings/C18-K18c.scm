;;! C18 case: shape=cycle:box op=equal-copy size=1
;;! stack=main bound=10
;;! verdict: (witness of finding K18c) — equal? of two distinct boxes that each contain themselves never returns: the (Boxed,Boxed)/(HeapAllocated,HeapAllocated) arms push the contents without should_visit
;;! model: equal_unchecked_box_pairs
;;! replay: ./check C18 --replay <this file>   (pieces are separated by the line ;;;---)
(struct node (next) #:transparent)
(struct mnode (next) #:mutable #:transparent)
(define d0 (box 0))
(set-box! d0 d0)
(define d d0)

;;;---
(define e0 (box 0))
(set-box! e0 e0)
(define e e0)

;;;---
(begin (simple-display "R ") (simple-display (equal? d e)) (newline))
