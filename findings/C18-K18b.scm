;;! C18 case: shape=cycle:mvec/map op=host-display size=1
;;! stack=main bound=10
;;! verdict: (witness of finding K18b) — Display of HashMapV / HashSetV formats the collection through {:#?}, i.e. Display/Debug for SteelVal again for every key and value (fresh depth counter, fresh cycle table): a mutable vector holding a hash map that holds the vector recurses until the native stack overflows; 10^3 nested hash maps take 6 s of CPU and 4 MB to print (cubic), 10^5 never finish
;;! model: display_reenters_display
;;! replay: ./check C18 --replay <this file>   (pieces are separated by the line ;;;---)
(struct node (next) #:transparent)
(struct mnode (next) #:mutable #:transparent)
(define d0 (vector 0))
(vector-set! d0 0 (hash 'k d0))
(define d d0)

;;;---
;;;host-display d
