;;! C18 case: shape=cycle:box op=host-display size=1
;;! stack=main bound=20
;;! verdict: (witness of finding K18b) — Display of a box formats its content with Display for SteelVal again (fresh depth counter, fresh cycle table): a box that contains itself recurses until the native stack overflows; a 10^5 chain of boxes overflows a 2 MiB stack
;;! model: display_reenters_display
;;! replay: ./check C18 --replay <this file>   (pieces are separated by the line ;;;---)
(struct node (next) #:transparent)
(struct mnode (next) #:mutable #:transparent)
(define d0 (box 0))
(set-box! d0 d0)
(define d d0)

;;;---
;;;host-display d
