#!/usr/bin/env python3
"""C15 translator: the safepoint EXITS of /repo/crates/steel-core/src/steel_vm/vm.rs and the spawn / registration order of
steel_vm/vm/threads.rs, as a table (lean/SteelVerif/C15/GenExitsTable.lean) + facts (.build/C15/exits.json).

Reads (never writes) /repo.  One row per `ctx.store(None)` (a thread retracts its published pointer = leaves a safepoint):
  rechecks     after the retraction, in the same function, the request word (`paused` / `flags`) is loaded AGAIN
  fenced       a `fence(SeqCst)` stands between the retraction and that load
  republishes  after that load the function can store `Some(..)` into `ctx` again (and the retraction is inside a `loop`)
Facts: stopFenced (stop_threads ends with a SeqCst fence: the stopper's half of the handshake), spawnLocked
(spawn_native_thread binds a heap-lock guard to a NAMED variable before it clones the thread state, and pushes the child to
`threads` after the clone, in the same function: the guard is alive until the registration).
The exception lists (`openK15a`, `openK15b`) are the functions excused while the finding is OPEN in /verif/KNOWN_FINDINGS.txt;
once the finding is `fixed:` they are empty and a regression breaks `exit_rechecks_after_retract` / `spawn_registers_under_heap_lock`.
"""
import json
import os
import re
import sys

VERIF = "/verif"
REPO = os.environ.get("C15_EXITS_REPO", "/repo")
VM = os.path.join(REPO, "crates/steel-core/src/steel_vm/vm.rs")
TH = os.path.join(REPO, "crates/steel-core/src/steel_vm/vm/threads.rs")


def fn_spans(src):
    """(name, start, end) of every `fn name` item, by brace matching from its first `{`."""
    out = []
    for m in re.finditer(r"\bfn\s+([A-Za-z_0-9]+)\s*(?:<[^{;]*?>)?\s*\(", src):
        i = src.find("{", m.end())
        semi = src.find(";", m.end())
        if i < 0 or (0 <= semi < i and src[m.end():semi].count("(") == src[m.end():semi].count(")") - 1):
            continue
        depth, j = 0, i
        while j < len(src):
            c = src[j]
            if c == "{":
                depth += 1
            elif c == "}":
                depth -= 1
                if depth == 0:
                    break
            j += 1
        out.append((m.group(1), m.start(), j + 1))
    return out


def strip_comments(src):
    return re.sub(r"//[^\n]*", lambda m: " " * len(m.group(0)), src)


def enclosing(spans, pos):
    best = None
    for n, a, b in spans:
        if a <= pos < b and (best is None or a > best[1]):
            best = (n, a, b)
    return best


def block_headers(src, a, pos):
    """Headers of the blocks of src[a:] that are open at `pos` (text between the previous `;`/`{`/`}` and each open `{`)."""
    stack, last = [], a
    i = a
    while i < pos:
        c = src[i]
        if c == "{":
            stack.append(src[last:i])
            last = i + 1
        elif c == "}":
            if stack:
                stack.pop()
            last = i + 1
        elif c == ";":
            last = i + 1
        i += 1
    return stack


LOAD = re.compile(r"\.\s*(?:paused|flags)\s*\.\s*load\s*\(|\.\s*must_wait\s*\(", re.S)


def main():
    src = strip_comments(open(VM).read())
    spans = fn_spans(src)
    rows = []
    for m in re.finditer(r"ctx\s*\.\s*store\s*\(\s*None\s*\)", src):
        f = enclosing(spans, m.start())
        if not f:
            continue
        name, a, b = f
        after = src[m.end():b]
        lm = LOAD.search(after)
        rechecks = lm is not None
        fenced = rechecks and re.search(r"fence\s*\(\s*(?:std::sync::atomic::)?Ordering::SeqCst|fence\s*\([^)]*SeqCst", after[:lm.start()]) is not None
        republishes = rechecks and re.search(r"ctx\s*\.\s*store\s*\(\s*Some\s*\(", after[lm.end():]) is not None \
            and re.search(r"\bloop\s*\{", src[a:m.start()]) is not None
        rows.append((name, src.count("\n", 0, m.start()) + 1, rechecks, fenced, republishes))
    st = [s for s in spans if s[0] == "stop_threads"]
    stop_fenced = False
    if st:
        body = src[st[0][1]:st[0][2]]
        k = body.rfind("pause_for_safepoint")
        stop_fenced = k >= 0 and re.search(r"fence\s*\([^)]*SeqCst", body[k:]) is not None
    tsrc = strip_comments(open(TH).read())
    tsp = [s for s in fn_spans(tsrc) if s[0] == "spawn_native_thread"]
    spawn_locked = False
    for n, a, b in tsp:
        body = tsrc[a:b]
        cl = body.find("ctx.thread.clone()")
        if cl < 0:
            continue
        g = re.search(r"let\s+(_[A-Za-z0-9_]+|[a-z][A-Za-z0-9_]*)\s*=\s*ctx\s*\.\s*thread\s*\.\s*enter_safepoint\s*\(\s*\|[^|]*\|\s*[a-z_]+\s*\.\s*heap\s*\.\s*lock_arc\s*\(\s*\)\s*\)\s*;", body[:cl], re.S)
        push = re.search(r"\.\s*push\s*\(\s*ThreadContext", body[cl:])
        dropped = g is not None and re.search(r"drop\s*\(\s*%s\s*\)" % re.escape(g.group(1)), body[:cl + (push.start() if push else 0)]) is not None
        spawn_locked = g is not None and g.group(1) != "_" and push is not None and not dropped
    # every park() of the handshake sits inside a loop that re-tests its condition (park may return at any time: a stale token
    # left by an earlier resume_threads, a spurious wake-up)
    parks = []
    for m in re.finditer(r"\bthread::park\s*\(\s*\)", src):
        f = enclosing(spans, m.start())
        if not f:
            continue
        hs = block_headers(src, f[1], m.start())
        loops = [re.sub(r"#\[[^\]]*\]", " ", h).strip() for h in hs[1:]]
        loops = [h for h in loops if re.match(r"(?:'[a-z_]+\s*:\s*)?(?:while\b|loop\b|for\b)", h)]
        # the NEAREST enclosing loop is a `while` that tests the request word
        in_loop = bool(loops) and re.match(r"(?:'[a-z_]+\s*:\s*)?while\b", loops[-1]) is not None \
            and re.search(r"paused|flags|must_wait", loops[-1]) is not None
        parks.append((f[0], src.count("\n", 0, m.start()) + 1, in_loop))
    # a full collection: resume_threads is its LAST step (after marking and after the root generation has been bumped)
    CL = os.path.join(REPO, "crates/steel-core/src/values/closed.rs")
    csrc = strip_comments(open(CL).read())
    cspans = fn_spans(csrc)
    stoppers = [sp for sp in cspans if "stop_threads" in csrc[sp[1]:sp[2]] and "enumerate_stacks" in csrc[sp[1]:sp[2]]]
    mark_has_no_resume = bool(stoppers) and all("resume_threads" not in csrc[a:b] for _, a, b in stoppers)
    resumers = [sp for sp in cspans if re.search(r"\.\s*resume_threads\s*\(", csrc[sp[1]:sp[2]])]
    resume_after_mark = bool(resumers)
    for n, a, b in resumers:
        body = csrc[a:b]
        r = re.search(r"\.\s*resume_threads\s*\(", body).start()
        mk = [m.start() for m in re.finditer(r"self\s*\.\s*mark\s*\(|MARKER\s*\.\s*mark\s*\(|increment_generation\s*\(", body)]
        if not mk or max(mk) > r:
            resume_after_mark = False
    gc_hooks = 'yield_point("gc.mark.begin"' in open(CL).read() and 'yield_point("gc.mark.end"' in open(CL).read()
    # the controller: one atomic word of request bits (every operation a fetch_or / fetch_and), exit loops that do not `break` on an interrupt
    cs = [sp for sp in spans if sp[0] in ("pause_for_safepoint", "interrupt", "resume")]
    raw = open(VM).read()
    m = re.search(r"pub struct ThreadStateController\s*\{(.*?)\n\}", raw, re.S)
    fields = re.findall(r"^\s*(?:pub(?:\([a-z]+\))?\s+)?([a-z_]+)\s*:", m.group(1), re.M) if m else []
    one_word = len(fields) == 1 and "fetch_or" in raw and "fetch_and" in raw
    exits_ignore_interrupt = True
    for n in ("enter_safepoint", "enter_safepoint_once"):
        for nm, a, b in spans:
            if nm == n and re.search(r"Interrupted", src[a:b]):
                exits_ignore_interrupt = False
    controller_one_word = one_word and exits_ignore_interrupt
    known = open(os.path.join(VERIF, "KNOWN_FINDINGS.txt")).read()
    open_a = re.search(r"^finding:.*\bid=K15a\b", known, re.M) is not None
    open_b = re.search(r"^finding:.*\bid=K15b\b", known, re.M) is not None
    open_c = re.search(r"^finding:.*\bid=(?:K15c|K17a|K17c)\b", known, re.M) is not None
    exc_a = sorted({r[0] for r in rows}) if open_a else []
    q = lambda s: '"%s"' % s
    bl = lambda x: "true" if x else "false"
    g = ["/- GENERATED by translate/c15_exits.py from /repo (do not edit). -/", "namespace SteelVerif.C15", "",
         "/-- One `ctx.store(None)`: a thread leaves a safepoint. -/", "structure ExitSite where", "  fn : String", "  line : Nat",
         "  rechecks : Bool", "  fenced : Bool", "  republishes : Bool", "deriving DecidableEq, Repr", "",
         "def exitSites : List ExitSite := ["]
    g += ["  ⟨%s, %d, %s, %s, %s⟩%s" % (q(n), ln, bl(r), bl(f), bl(p), "," if i + 1 < len(rows) else "")
          for i, (n, ln, r, f, p) in enumerate(rows)]
    g += ["]", "", "def stopFenced : Bool := %s" % bl(stop_fenced), "def spawnLocked : Bool := %s" % bl(spawn_locked),
          "/-- One `std::thread::park()` of vm.rs. -/", "structure ParkSite where", "  fn : String", "  line : Nat", "  inLoop : Bool", "deriving DecidableEq, Repr",
          "def parkSites : List ParkSite := [" + ", ".join("⟨%s, %d, %s⟩" % (q(n), ln, bl(l)) for n, ln, l in parks) + "]",
          "/-- values/closed.rs: the function that stops the world and walks the stacks does not resume. -/",
          "def markHasNoResume : Bool := %s" % bl(mark_has_no_resume),
          "/-- … and every `resume_threads()` of a collection stands after the marking call and the bump of the root generation. -/",
          "def resumeAfterMark : Bool := %s" % bl(resume_after_mark),
          "/-- `ThreadStateController` is one atomic word of request bits and the exit loops of enter_safepoint do not `break` on an interrupt. -/",
          "def controllerOneWord : Bool := %s" % bl(controller_one_word), "",
          "/-- Functions excused while K15a is an OPEN finding (empty once it is `fixed:`). -/",
          "def openK15a : List String := [%s]" % ", ".join(q(x) for x in exc_a),
          "/-- `true` while K15b is an OPEN finding. -/", "def openK15b : Bool := %s" % bl(open_b),
          "/-- `true` while K15c, K17a or K17c (the two-cell controller) is an OPEN finding. -/", "def openController : Bool := %s" % bl(open_c), "", "end SteelVerif.C15", ""]
    out = os.path.join(VERIF, "lean/SteelVerif/C15/GenExitsTable.lean")
    new = "\n".join(g)
    if not os.path.exists(out) or open(out).read() != new:
        open(out, "w").write(new)
    repaired = bool(rows) and all(r and f and p for _, _, r, f, p in rows) and stop_fenced
    os.makedirs(os.path.join(VERIF, ".build/C15"), exist_ok=True)
    json.dump({"exit_sites": [list(r) for r in rows], "stop_fenced": stop_fenced, "exits_repaired": repaired,
               "spawn_locked": spawn_locked, "controller_one_word": controller_one_word, "park_sites": [list(x) for x in parks],
               "mark_has_no_resume": mark_has_no_resume, "resume_after_mark": resume_after_mark, "gc_mark_hooks": gc_hooks, "open_K15a": open_a, "open_K15b": open_b},
              open(os.path.join(VERIF, ".build/C15/exits.json"), "w"))
    print("c15_exits: %d exit sites, repaired=%s, stop_fenced=%s, spawn_locked=%s" % (len(rows), repaired, stop_fenced, spawn_locked))
    return 0


if __name__ == "__main__":
    sys.exit(main())
