#!/usr/bin/env python3
"""C10 translator (call shapes): regenerate lean/SteelVerif/C10/GenOps.lean from the Rust sources.

Extracted:
  * crates/steel-core/src/steel_vm/vm.rs — for every arithmetic / comparison op code of the interpreter's dispatch
    loop, the numeric functions its arm reaches (through the `inline_*!` macros, the `*_handler*` functions and
    `handlers::add_handler_none_none`, each resolved by reading its body) and where the second operand comes from
    (the literal `IntV(1)`, the instruction payload, the constant table, the stack);
  * crates/steel-core/src/compiler/program.rs `inline_num_operations` and crates/steel-core/src/compiler/code_gen.rs
    `specialize_immediate` / `should_specialize_call` — which op code replaces a call of which primitive
    (with the arity condition and the `jit2` feature gate);
  * the functions registered under the names `+ - * / = < > <= >=` (`#[steel_derive::native/function(name = ..)]`)
    and, for the four order primitives, that their body is `ord_internal`.
Lean (`Shapes.lean`) decides that these tables are the ones the model's `runOp` / `generic` transcribe, and that
every emission rule replaces a call of σ only by an op code proved equal to the generic σ.

usage: c10_ops.py [REPO] [OUT]   prints one JSON object on stdout; an extraction that no longer parses exits 2.
"""
import json
import os
import re
import sys

REPO = sys.argv[1] if len(sys.argv) > 1 else "/repo"
OUT = sys.argv[2] if len(sys.argv) > 2 else "/verif/lean/SteelVerif/C10/GenOps.lean"

OPS = ["ADD", "SUB", "MUL", "DIV", "BINOPADD", "BINOPADDTAIL", "NUMEQUAL", "LTE", "LT", "GT", "GTE",
       "ADDREGISTER", "SUBREGISTER", "LTEREGISTER", "SUBREGISTER1", "ADDIMMEDIATE", "SUBIMMEDIATE",
       "LTEIMMEDIATE", "LTEIMMEDIATEIF"]
FNS = ["add_primitive", "subtract_primitive", "multiply_primitive", "divide_primitive", "add_two_fallible",
       "number_equality", "lte_primitive", "lt_primitive", "gt_primitive", "gte_primitive", "equality_primitive"]
SYMS = {"+": "plus", "-": "minus", "*": "star", "/": "slash", "=": "numEq", "<=": "le", "<": "lt", ">": "gt",
        ">=": "ge"}


def die(msg):
    sys.stderr.write("c10_ops: " + msg + "\n")
    sys.exit(2)


def strip_comments(s):
    return re.sub(r"//[^\n]*", "", s)


def block_after(s, i):
    """text of the `{...}` block that starts at or after index i."""
    j = s.find("{", i)
    if j < 0:
        die("no block")
    depth = 0
    k = j
    while k < len(s):
        if s[k] == "{":
            depth += 1
        elif s[k] == "}":
            depth -= 1
            if depth == 0:
                return s[j:k + 1]
        k += 1
    die("unbalanced block")


def fn_body(src, name):
    m = re.search(r"\bfn\s+%s\s*(<[^>]*>)?\s*\(" % re.escape(name), src)
    if not m:
        die("fn %s not found" % name)
    return block_after(src, m.end())


def macro_body(src, name):
    m = re.search(r"macro_rules!\s+%s\s*\{" % re.escape(name), src)
    if not m:
        die("macro %s not found" % name)
    return block_after(src, m.start())


def reach(src, text, depth=0):
    """numeric functions reached from a piece of code: direct mentions, macro arguments, one or two levels of
    handler functions."""
    found = []
    for f in FNS:
        if re.search(r"\b%s\b" % f, text):
            found.append(f)
    if depth < 3:
        for m in re.finditer(r"\b(?:handlers::)?(\w*_handler\w*)\s*\(", text):
            h = m.group(1)
            if re.search(r"\bfn\s+%s\b" % h, src):
                for f in reach(src, fn_body(src, h), depth + 1):
                    if f not in found:
                        found.append(f)
    return found


def arm_of(src, op):
    m = re.search(r"DenseInstruction\s*\{\s*op_code:\s*OpCode::%s,\s*(?:payload_size,\s*)?(?:\.\.\s*)?\}\s*=>" % op, src)
    if not m:
        die("dispatch arm of %s not found" % op)
    rest = src[m.end():]
    if rest.lstrip().startswith("{"):
        return block_after(src, m.end())
    # expression arm: up to the next top-level comma
    return rest[:rest.index("\n\n")]


def main():
    vm = strip_comments(open(os.path.join(REPO, "crates/steel-core/src/steel_vm/vm.rs")).read())
    prog = strip_comments(open(os.path.join(REPO, "crates/steel-core/src/compiler/program.rs")).read())
    cg = strip_comments(open(os.path.join(REPO, "crates/steel-core/src/compiler/code_gen.rs")).read())
    nums = open(os.path.join(REPO, "crates/steel-core/src/primitives/numbers.rs")).read()
    rvals = open(os.path.join(REPO, "crates/steel-core/src/rvals.rs")).read()
    prims = open(os.path.join(REPO, "crates/steel-core/src/steel_vm/primitives.rs")).read()

    macros = {n: macro_body(vm, n) for n in
              ("inline_primitive", "inline_register_primitive", "inline_register_primitive_immediate")}
    dispatch = []
    for op in OPS:
        arm = arm_of(vm, op)
        fns = reach(vm, arm)
        operand = "stack"
        text = arm
        for mn, mb in macros.items():
            if re.search(r"\b%s!\s*\(" % mn, arm):
                text = arm + mb
        if re.search(r"SteelVal::IntV\(1\)", text):
            operand = "int1"
        elif re.search(r"push_const\s*\.\s*payload_size\s*\.\s*to_usize\(\)\s*as\s+isize", text):
            operand = "immediate"
        elif re.search(r"self\.constants\.get_value\(push_const", text):
            operand = "constant"
        if re.search(r"\.checked_sub\(", arm):
            fns = ["checked_sub"] + fns
        if re.search(r"l\.clone\(\)\s*<=\s*SteelVal::IntV\(r\)", arm):
            fns = ["partial_le"] + fns
        if not fns:
            die("dispatch arm of %s reaches no known numeric function" % op)
        dispatch.append((op, fns, operand))

    # emission rules ------------------------------------------------------------------------------
    syms = dict(re.findall(r"\(PRIM_(\w+),\s*\w+\)\s*=>\s*\"([^\"]+)\"", prog))
    body = fn_body(prog, "inline_num_operations")
    rules = []
    for m in re.finditer(r"(#\[cfg\(not\(feature\s*=\s*\"jit2\"\)\)\]\s*)?x\s+if\s+x\s*==\s*\*PRIM_(\w+)\s*&&\s*payload_size\s*"
                         r"(==\s*2|>\s*0)\s*(&&\s*\*op\s*==\s*OpCode::TAILCALL\s*)?=>\s*\{?\s*Some\(OpCode::(\w+)\)", body):
        gate, sym, cond, tail, op = m.groups()
        name = syms.get(sym)
        if name is None:
            die("unknown primitive symbol PRIM_%s" % sym)
        if name not in SYMS:
            continue                                   # equal? : C11's
        rules.append((name, op, "eq2" if "==" in cond else "pos", bool(tail), bool(gate)))
    if len(rules) < 9:
        die("inline_num_operations: only %d rules parsed" % len(rules))
    for fname, gatefn in (("specialize_immediate", True), ("should_specialize_call", True)):
        b = fn_body(cg, fname)
        gated = bool(re.search(r"cfg!\(feature\s*=\s*\"jit2\"\)", b))
        three = bool(re.search(r"l\.args\.len\(\)\s*==\s*3", b))
        if not three:
            die("%s: the arity test changed" % fname)
        got = 0
        for m in re.finditer(r"((?:\"[^\"]+\"\s*\|?\s*)+)=>\s*Some\(OpCode::(\w+)\)", b):
            names = re.findall(r"\"([^\"]+)\"", m.group(1))
            base = [n for n in names if not n.startswith("#%prim.")]
            for n in base:
                if n in SYMS:
                    rules.append((n, m.group(2), "eq2", False, gated))
                    got += 1
        if got != 3:
            die("%s: %d rules parsed" % (fname, got))
    for (_, op, _, _, _) in rules:
        if op not in OPS:
            die("emission rule names op code %s which the model does not know" % op)

    # registered functions ------------------------------------------------------------------------
    registered = []
    for name in SYMS:
        hit = None
        for src in (nums, rvals, prims):
            m = re.search(r"#\[steel_derive::(?:native|function)\(name\s*=\s*\"%s\"[^\]]*\)\]\s*(?:pub(?:\([^)]*\))?\s+)?fn\s+(\w+)"
                          % re.escape(name), src)
            if m:
                hit = (m.group(1), src)
                break
        if hit is None:
            die("no function registered under the name %s" % name)
        fn, src = hit
        if name in ("<", ">", "<=", ">="):
            b = fn_body(src, fn)
            if not re.search(r"\bord_internal\s*\(", b):
                die("%s no longer goes through ord_internal" % fn)
        registered.append((name, fn))

    # string->number: is a zero denominator rejected before `BigRational::new` can see it? -----------
    strings = strip_comments(open(os.path.join(REPO, "crates/steel-core/src/primitives/strings.rs")).read())
    parser = strip_comments(open(os.path.join(REPO, "crates/steel-core/src/parser/parser.rs")).read())
    s2n = fn_body(strings, "string_to_number")
    if not re.search(r"parse_number\s*\(", s2n):
        die("string_to_number no longer calls parse_number")
    filt = bool(re.search(r"parse_number\s*\([^;]*\)\s*\.filter\(\s*\|n\|\s*!\s*has_zero_denominator\(n\)\s*\)", s2n))
    if filt:
        hz = fn_body(strings, "has_zero_denominator")
        filt = bool(re.search(r"IntLiteral::Small\(d\)\)\s*=>\s*\*d\s*==\s*0", hz)) and \
            bool(re.search(r"IntLiteral::Big\(d\)\)\s*=>\s*\*\*d\s*==\s*(?:num_bigint::)?BigInt::ZERO", hz))
    r2s = fn_body(parser, "real_literal_to_steelval")
    guard = len(re.findall(r"division by zero in", r2s)) >= 3 and \
        bool(re.search(r"\(_,\s*IntLiteral::Small\(0\)\)\s*=>", r2s)) and \
        bool(re.search(r"\(_,\s*IntLiteral::Big\(d\)\)\s*if\s*\*\*d\s*==\s*(?:num_bigint::)?BigInt::ZERO\s*=>", r2s))
    s2n_checked = filt and guard

    # mixed exact / inexact: conversions used by the arms, the shape of subtraction / division, cmp_exact_with_float --
    numsrc = strip_comments(nums)
    rvsrc = strip_comments(rvals)
    conv = []
    for fn in ("add_two", "add_two_fallible", "multiply_two"):
        b = fn_body(numsrc, fn)
        opch = r"\*" if fn == "multiply_two" else r"\+"
        for kind, cexpr, tag in (("IntV", r"\*y\s+as\s+f64", "as_f64"), ("BigNum", r"y\.to_f64\(\)\.unwrap\(\)", "to_f64"),
                                 ("Rational", r"y\.to_f64\(\)\.unwrap\(\)", "to_f64"),
                                 ("BigRational", r"y\.to_f64\(\)\.unwrap\(\)", "to_f64")):
            pat = (r"\(SteelVal::NumV\(x\),\s*SteelVal::%s\(y\)\)\s*\|\s*\(SteelVal::%s\(y\),\s*SteelVal::NumV\(x\)\)\s*=>\s*\{?\s*"
                   r"\(x\s*%s\s*%s\)\.into_steelval\(\)") % (kind, kind, opch, cexpr)
            if not re.search(pat, b):
                die("%s: the (NumV, %s) arm is no longer `x op <%s of y>`" % (fn, kind, tag))
            conv.append((fn, kind, tag))
    sb = fn_body(numsrc, "subtract_primitive")
    sub_shape = bool(re.search(r"\[x\s*@\s*SteelVal::NumV\(_\),\s*SteelVal::IntV\(0\)\]\s*=>\s*Ok\(x\.clone\(\)\)", sb)) and \
        bool(re.search(r"negate\(&add_primitive_no_check\(ys\)\?\)\?", sb)) and bool(re.search(r"add_two\(x,\s*&y\)", sb))
    if not sub_shape:
        die("subtract_primitive: shape changed")
    ng = fn_body(numsrc, "negate")
    if not re.search(r"SteelVal::NumV\(x\)\s*=>\s*\(-x\)\.into_steelval\(\)", ng):
        die("negate: the NumV arm changed")
    db = fn_body(numsrc, "divide_primitive")
    via_recip = bool(re.search(r"\[x,\s*y\]\s*=>\s*multiply_two\(x,\s*&recip\(y\)\?\)", db)) and \
        bool(re.search(r"SteelVal::NumV\(n\)\s*=>\s*n\.recip\(\)\.into_steelval\(\)", db))
    if not via_recip and not re.search(r"\[x,\s*y\]\s*=>", db):
        die("divide_primitive: shape changed")
    cb = fn_body(rvsrc, "cmp_exact_with_float")
    special = []
    if re.search(r"if\s+float\.is_nan\(\)\s*\{\s*None", cb):
        special.append(("nan", "None"))
    m = re.search(r"float\s*==\s*f64::INFINITY\s*\{\s*Some\(Ordering::(\w+)\)", cb)
    if m:
        special.append(("posInf", m.group(1)))
    m = re.search(r"float\s*==\s*f64::NEG_INFINITY\s*\{\s*Some\(Ordering::(\w+)\)", cb)
    if m:
        special.append(("negInf", m.group(1)))
    m = re.search(r"if\s+let\s+IntV\(x\)\s*=\s*exact\s*\{\s*if\s+x\.unsigned_abs\(\)\s*<=\s*\(1usize\s*<<\s*(\d+)\)\s*\{\s*"
                  r"return\s+\(\*x\s+as\s+f64\)\.partial_cmp\(&float\)", cb)
    if not m:
        die("cmp_exact_with_float: the fixnum fast path is no longer `x.unsigned_abs() <= (1usize << K)` + cast + partial_cmp")
    fast_bits = int(m.group(1))
    if not re.search(r"BigRational::from_float\(float\)\.map\(\|float\|\s*exact\.cmp\(&float\)\)", cb):
        die("cmp_exact_with_float: the slow path is no longer exact.cmp(from_float(float))")

    # write ----------------------------------------------------------------------------------------
    L = ["/- GENERATED by translate/c10_ops.py from vm.rs, compiler/program.rs, compiler/code_gen.rs and the",
         "   primitive registrations — do not edit. -/",
         "namespace SteelVerif.C10.Gen", "",
         "/-- dispatch loop of vm.rs: op code, the numeric functions its arm reaches, source of the second operand -/",
         "def opDispatch : List (String × List String × String) := ["]
    L.append(",\n".join('  ("%s", [%s], "%s")' % (op, ", ".join('"%s"' % f for f in fns), operand)
                        for (op, fns, operand) in dispatch))
    L += ["]", "",
          "/-- emission rules: (primitive, op code, arity condition, tail calls only, only without feature jit2) -/",
          "def emission : List (String × String × String × Bool × Bool) := ["]
    L.append(",\n".join('  ("%s", "%s", "%s", %s, %s)' % (n, op, c, str(t).lower(), str(g).lower())
                        for (n, op, c, t, g) in rules))
    L += ["]", "", "/-- the Rust function registered under each primitive name -/",
          "def registered : List (String × String) := ["]
    L.append(",\n".join('  ("%s", "%s")' % r for r in registered))
    L += ["]", "",
          "/-- `string->number` answers `#f` for a zero denominator (`has_zero_denominator` filter in string_to_number) and",
          "`real_literal_to_steelval` guards `BigRational::new` against one (false: the code as pinned, finding K10g) -/",
          "def s2nChecked : Bool := %s" % str(s2n_checked).lower(),
          "",
          "/-- mixed arms of add_two / add_two_fallible / multiply_two: (function, exact kind, conversion of the exact operand);",
          "every arm is `x op conv(y)` with the double `x` on the left -/",
          "def mixedConversions : List (String × String × String) := [",
          ",\n".join('  ("%s", "%s", "%s")' % c for c in conv), "]",
          "/-- `[x, y] => multiply_two(x, &recip(y)?)` with `NumV(n) => n.recip()` (finding K10e) -/",
          "def divViaReciprocal : Bool := %s" % str(via_recip).lower(),
          "/-- cmp_exact_with_float: answers for NaN / +inf / -inf, and K of the fixnum fast path `|x| <= 1 << K` -/",
          "def cmpSpecial : List (String × String) := [%s]" % ", ".join('("%s", "%s")' % c for c in special),
          "def cmpFastPathBits : Nat := %d" % fast_bits,
          "", "end SteelVerif.C10.Gen", ""]
    text = "\n".join(L)
    old = open(OUT).read() if os.path.exists(OUT) else None
    if old != text:
        open(OUT, "w").write(text)
    print(json.dumps({"op_codes": len(dispatch), "emission_rules": len(rules), "registered": len(registered),
                      "dispatch": {op: fns for (op, fns, _) in dispatch}, "s2nChecked": s2n_checked, "divViaReciprocal": via_recip, "cmpFastPathBits": fast_bits,
                      "mixed_arms": len(conv),
                      "changed": old != text}))


if __name__ == "__main__":
    main()
