#!/usr/bin/env python3
"""C20 translator: crates/steel-core/src/primitives.rs + steel_vm/register_fn.rs -> lean/SteelVerif/C20/GenConvs.lean

Extracts
  * for every host integer type the code path of `IntoSteelVal` (asIsize | tryIsizeElseBig |
    gtIsizeMaxElseBig) and of `FromSteelVal` (tryFromInt | asCastInt | tryIntoIntOrBig), from the macro
    definitions (`from_for_isize!`, `try_from_int_impl!`, `try_from_impl!`), their invocation lists
    and the hand-written impls (`impl From<T> for SteelVal`, `impl FromSteelVal for T`);
  * how `LifetimeGuard::drop` (engine.rs) frees the nursery (`free_n(self.count)` as found);
  * the argument-index tables of `impl_register_fn!(n => A:0, ..)` / `impl_register_fn_self!(n => B:1, ..)`
    and whether every generated wrapper checks the arity before it calls the host function.
Anything that does not parse as expected is an error (exit 2): a broken tie, not silence.
Usage: c20_convs.py [REPO] [OUT.lean]     (prints a JSON summary on stdout)
"""
import json
import re
import sys

INTS = ["i8", "i16", "i32", "i64", "isize", "u8", "u16", "u32", "u64", "usize", "u128"]


class Broken(Exception):
    pass


def strip_comments(src):
    src = re.sub(r"/\*.*?\*/", "", src, flags=re.S)
    return "\n".join(l.split("//", 1)[0] if not re.search(r'"[^"]*//[^"]*"', l) else l for l in src.splitlines())


def block_at(src, open_idx):
    """text of the {...} block whose '{' is at open_idx (inclusive of braces)"""
    assert src[open_idx] == "{"
    depth = 0
    for i in range(open_idx, len(src)):
        c = src[i]
        if c == "{":
            depth += 1
        elif c == "}":
            depth -= 1
            if depth == 0:
                return src[open_idx:i + 1]
    raise Broken("unbalanced braces")


def find_block(src, header_re, what):
    m = re.search(header_re, src)
    if not m:
        return None
    i = src.index("{", m.end() - 1) if src[m.end() - 1] != "{" else m.end() - 1
    return block_at(src, i)


def macro_def(src, name):
    b = find_block(src, r"macro_rules!\s+" + re.escape(name) + r"\s*\{", name)
    return b


def invocations(src, name):
    out = []
    for m in re.finditer(r"^\s*" + re.escape(name) + r"!\s*\(([^;]*?)\)\s*;", src, re.M | re.S):
        out.append(m.group(1))
    return out


def classify_into_body(body, who):
    """body of an `impl From<T> for SteelVal` / IntoSteelVal impl or macro arm producing an IntV"""
    b = re.sub(r"\s+", " ", body)
    has_big = "BigNum" in b
    if re.search(r"TryInto::<isize>::try_into|isize::try_from|try_into\(\)", b) and has_big:
        return "tryIsizeElseBig"
    if re.search(r">\s*isize::MAX as", b) and has_big and re.search(r"IntV\(\s*\w+ as isize\s*\)", b):
        return "gtIsizeMaxElseBig"
    if re.search(r"IntV\(\s*\w+ as isize\s*\)", b) and not has_big:
        return "asIsize"
    raise Broken("cannot classify the integer injection of %s: %s" % (who, b[:200]))


def classify_from_body(body, who):
    """body of `fn from_steelval` for an integer type"""
    b = re.sub(r"\s+", " ", body)
    arms = {}
    for kind in ("IntV", "BigNum"):
        m = re.search(r"SteelVal::" + kind + r"\((\w+)\)\s*=>\s*(.*?)(?=SteelVal::\w+\(|_ =>)", b)
        if m:
            arms[kind] = m.group(2)
    if "IntV" not in arms:
        raise Broken("no IntV arm in the integer extraction of %s: %s" % (who, b[:200]))

    def checked(arm):
        if re.search(r"try_into\(\)|try_from\(|TryInto::|TryFrom::", arm):
            return True
        if re.search(r"\bas\s+(\$\w+|[iu](8|16|32|64|128|size))\b", arm):
            return False
        raise Broken("cannot tell whether the %s arm of %s is checked: %s" % ("?", who, arm[:160]))

    c_int = checked(arms["IntV"])
    if not c_int:
        if "BigNum" in arms:
            raise Broken("unmodelled mix in %s: `as` on IntV with a BigNum arm" % who)
        return "asCastInt"
    if "BigNum" in arms:
        if not checked(arms["BigNum"]):
            raise Broken("unmodelled: unchecked BigNum arm in %s" % who)
        return "tryIntoIntOrBig"
    return "tryFromInt"


def conv_tables(src):
    into, frm, origin = {}, {}, {}

    def put(tab, t, path, where):
        if t not in INTS:
            return
        if t in tab:
            raise Broken("two impls for %s (%s and %s)" % (t, origin[(id(tab), t)], where))
        tab[t] = path
        origin[(id(tab), t)] = where

    # --- macros generating IntoSteelVal
    for mac in ("from_for_isize",):
        d = macro_def(src, mac)
        invs = invocations(src, mac)
        if d is None:
            if invs:
                raise Broken("%s! is invoked but not defined" % mac)
            continue
        m = re.search(r"impl\s+IntoSteelVal\s+for\s+\$body\s*\{", d)
        if not m:
            raise Broken("%s!: no `impl IntoSteelVal for $body`" % mac)
        body = block_at(d, d.index("{", m.end() - 1))
        path = classify_into_body(body.replace("self", "val"), mac + "!")
        for inv in invs:
            for t in [x.strip() for x in inv.split(",") if x.strip()]:
                put(into, t, path, mac + "!")
    # --- macros generating FromSteelVal
    for mac in ("try_from_int_impl", "try_from_impl"):
        d = macro_def(src, mac)
        invs = invocations(src, mac)
        if d is None:
            if invs:
                raise Broken("%s! is invoked but not defined" % mac)
            continue
        m = re.search(r"impl\s+FromSteelVal\s+for\s+\$body\s*\{", d)
        if not m:
            raise Broken("%s!: no `impl FromSteelVal for $body`" % mac)
        body = block_at(d, d.index("{", m.end() - 1))
        for inv in invs:
            variant = "IntV"
            lst = inv
            mm = re.match(r"\s*(\w+)\s*=>\s*(.*)", inv, re.S)
            if mm:
                variant, lst = mm.group(1), mm.group(2)
            types = [x.strip() for x in lst.split(",") if x.strip()]
            if variant != "IntV":
                if any(t in INTS for t in types):
                    raise Broken("%s!(%s => ..) covers an integer type" % (mac, variant))
                continue
            path = classify_from_body(body.replace("$type", "IntV"), mac + "!")
            for t in types:
                put(frm, t, path, mac + "!")
    # --- hand-written impls
    for t in INTS:
        b = find_block(src, r"impl\s+From<" + t + r">\s+for\s+SteelVal\s*\{", t)
        bi = find_block(src, r"impl\s+IntoSteelVal\s+for\s+" + t + r"\s*\{", t)
        if bi is not None:
            flat = re.sub(r"\s+", " ", bi)
            if re.search(r"Ok\(\s*(self\.into\(\)|SteelVal::from\(self\))\s*\)", flat):
                if b is None:
                    raise Broken("IntoSteelVal for %s delegates to a missing From<%s>" % (t, t))
                put(into, t, classify_into_body(b, "From<%s>" % t), "impl From<%s>" % t)
            else:
                put(into, t, classify_into_body(bi.replace("self", "val"), "IntoSteelVal for " + t),
                    "impl IntoSteelVal for " + t)
        elif b is not None and t not in into:
            raise Broken("From<%s> exists without IntoSteelVal for %s" % (t, t))
        bf = find_block(src, r"impl\s+FromSteelVal\s+for\s+" + t + r"\s*\{", t)
        if bf is not None:
            put(frm, t, classify_from_body(bf, "FromSteelVal for " + t), "impl FromSteelVal for " + t)
    missing = [t for t in INTS if t not in into]
    if missing:
        raise Broken("no IntoSteelVal impl found for %s" % missing)
    return into, frm


def reg_tables(src):
    out = []
    for mac, is_self in (("impl_register_fn", False), ("impl_register_fn_self", True)):
        d = macro_def(src, mac)
        if d is None:
            raise Broken("%s! not found" % mac)
        # every generated closure checks the arity before it calls the host function
        closures = [m.start() for m in re.finditer(r"let f = move \|args", d)]
        if not closures:
            raise Broken("%s!: no wrapper closure" % mac)
        for c in closures:
            seg = d[c:c + 1500]
            a = seg.find("args.len() != $arg_count")
            b = seg.find("ArityMismatch")
            f = seg.find("func(")
            if not (0 <= a < b < f):
                raise Broken("%s!: a wrapper does not check the arity before calling the function" % mac)
            call = seg[f:seg.index(";", f)]
            if "from_steelval(&args[$idx])" not in re.sub(r"\s+", "", call).replace("<$param>::", ""):
                raise Broken("%s!: parameters are not extracted with from_steelval(&args[$idx])" % mac)
        invs = invocations(src, mac)
        if not invs:
            raise Broken("%s! is never invoked" % mac)
        for inv in invs:
            m = re.match(r"\s*(\d+)\s*=>\s*(.*)", inv, re.S)
            if not m:
                raise Broken("cannot parse %s!(%s)" % (mac, inv))
            arity = int(m.group(1))
            idxs = []
            for part in m.group(2).split(","):
                mm = re.match(r"\s*(\w+)\s*:\s*(\d+)\s*$", part)
                if not mm:
                    raise Broken("cannot parse parameter `%s` of %s!(%s)" % (part, mac, inv))
                idxs.append(int(mm.group(2)))
            if len(idxs) != arity - (1 if is_self else 0):
                raise Broken("%s!(%d => ..) lists %d parameters" % (mac, arity, len(idxs)))
            out.append((is_self, arity, idxs))
    return out


def wrapper_table(src):
    """every HAND-WRITTEN wrapper closure of register_fn.rs (outside the two macros):
    (key, arity checked before the host function is called, args indices read, in order of appearance).
    key = '<Engine|BuiltInModule>:<marker type>:<register_fn|register_owned_fn>'"""
    cut = src.find("macro_rules! impl_register_fn ")
    if cut < 0:
        cut = src.find("macro_rules! impl_register_fn{")
    if cut < 0:
        raise Broken("impl_register_fn! not found")
    head = src[:cut]
    impls = []
    for m in re.finditer(r"^impl<", head, re.M):
        i = head.index("{", head.index(" for ", m.start()))
        hdr = re.sub(r"\s+", " ", head[m.start():i])
        mm = re.search(r"RegisterFn(?:Borrowed)?<FN, (.*), \w+> for (\w+)\s*$", hdr)
        if not mm:
            continue
        impls.append((m.start(), i, mm.group(2), re.sub(r"\s+", "", mm.group(1))))
    out = []
    for m in re.finditer(r"let f = move \|args: &\[SteelVal\]\|", head):
        own = [x for x in impls if x[0] < m.start()]
        if not own:
            raise Broken("a wrapper closure outside any RegisterFn impl")
        _, _, target, marker = own[-1]
        fns = list(re.finditer(r"fn (register_fn|register_owned_fn|register_fn_borrowed)\b", head[own[-1][0]:m.start()]))
        if not fns:
            raise Broken("a wrapper closure outside register_fn / register_owned_fn")
        fn = fns[-1].group(1)
        flat = re.sub(r"\s+", " ", block_at(head, head.index("{", m.end())))
        f = flat.find("func(")
        if f < 0:
            raise Broken("wrapper %s:%s does not call the host function" % (target, marker))
        am = re.search(r"if (!args\.is_empty\(\)|args\.len\(\) != (\d+)) \{ stop!\(ArityMismatch", flat)
        if not am or am.start() > f:
            raise Broken("wrapper %s:%s does not check the arity before calling the host function" % (target, marker))
        arity = int(am.group(2)) if am.group(2) else 0
        idxs = []
        for ix in re.findall(r"args\[([^\]]*)\]", flat):
            if not ix.strip().isdigit():
                raise Broken("wrapper %s:%s indexes args with `%s` (unmodelled)" % (target, marker, ix))
            idxs.append(int(ix))
        out.append(("%s:%s:%s" % (target, marker, fn), arity, idxs))
    if len(out) < 20:
        raise Broken("only %d hand-written wrapper closures found in register_fn.rs" % len(out))
    return out


def self_macro_receivers(src):
    """the receiver extractions generated by impl_register_fn_self! (one impl per receiver kind)"""
    d = macro_def(src, "impl_register_fn_self")
    kinds = []
    for k, pat in (("ref", r"Fn\(&SELF, \$\(\$param\),\*\)"), ("mutRef", r"Fn\(&mut SELF, \$\(\$param\),\*\)")):
        if re.search(pat, d):
            kinds.append(k)
    if kinds != ["ref", "mutRef"]:
        raise Broken("impl_register_fn_self! no longer generates both the &SELF and the &mut SELF wrapper: %s" % kinds)
    for c in [m.start() for m in re.finditer(r"let f = move \|args", d)]:
        seg = re.sub(r"\s+", " ", d[c:c + 1500])
        f = seg.find("func(")
        r = re.search(r"<SELF>::(as_ref|as_mut_ref|as_mut_ref_from_ref)\(&args\[0\]\)", seg)
        if not r or r.start() > f:
            raise Broken("impl_register_fn_self!: the receiver is not extracted from args[0] before the call")
    return kinds


def float_paths(src):
    """f32 / f64: `from_f64!` (widening `as f64` on the way in) and `try_from_impl!(NumV => ..)` on the way out"""
    into, frm = {}, {}
    d = macro_def(src, "from_f64")
    if d is None or not re.search(r"NumV\(\s*self as f64\s*\)", d):
        raise Broken("from_f64! does not inject with `self as f64`")
    for inv in invocations(src, "from_f64"):
        for t in [x.strip() for x in inv.split(",") if x.strip()]:
            into[t] = "asF64"
    d = macro_def(src, "try_from_impl")
    for inv in invocations(src, "try_from_impl"):
        mm = re.match(r"\s*(\w+)\s*=>\s*(.*)", inv, re.S)
        if mm and mm.group(1) == "NumV":
            if not re.search(r"SteelVal::\$type\(x\) => Ok\(x\.clone\(\) as \$body\)", re.sub(r"\s+", " ", d)):
                raise Broken("try_from_impl! is no longer `x.clone() as $body`")
            for t in [x.strip() for x in mm.group(2).split(",") if x.strip()]:
                frm[t] = "asCast"
    for t in ("f32", "f64"):
        b = find_block(src, r"impl\s+FromSteelVal\s+for\s+" + t + r"\s*\{", t)
        if b is not None:
            if t in frm:
                raise Broken("two FromSteelVal impls for " + t)
            frm[t] = "handWritten"
    if set(into) != {"f32", "f64"} or set(frm) != {"f32", "f64"}:
        raise Broken("float conversions changed: into %s from %s" % (into, frm))
    if frm["f64"] != "asCast":
        raise Broken("FromSteelVal for f64 is no longer the identity cast")
    if frm["f32"] == "handWritten":
        b = re.sub(r"\s+", " ", find_block(src, r"impl\s+FromSteelVal\s+for\s+f32\s*\{", "f32"))
        if not (re.search(r"is_finite\(\)", b) and re.search(r"is_infinite\(\)|f32::MAX", b) and "ConversionError" in b):
            raise Broken("cannot classify the hand-written FromSteelVal for f32: " + b[:200])
        frm["f32"] = "checked"
    return into, frm


def unmodelled_ints(src):
    """integer types with a conversion impl that the model does not have (i128)"""
    for t in ("i128",):
        for pat in (r"impl\s+From<%s>\s+for\s+SteelVal", r"impl\s+IntoSteelVal\s+for\s+%s\b", r"impl\s+FromSteelVal\s+for\s+%s\b"):
            if re.search(pat % t, src):
                raise Broken("a conversion impl for %s exists but is not modelled" % t)
        for mac in ("from_for_isize", "try_from_int_impl", "try_from_impl", "from_f64"):
            for inv in invocations(src, mac):
                if re.search(r"\b%s\b" % t, inv):
                    raise Broken("%s!(.. %s ..): not modelled" % (mac, t))
    if re.search(r"impl\s+FromSteelVal\s+for\s+u128\b", src):
        raise Broken("FromSteelVal for u128 exists but is not modelled (the model has injection only)")


def free_policy(src):
    """how `LifetimeGuard::drop` (engine.rs) frees the nursery at the end of a lending call"""
    b = find_block(src, r"impl<'a>\s+Drop\s+for\s+LifetimeGuard<'a>\s*\{", "LifetimeGuard")
    if b is None:
        raise Broken("impl Drop for LifetimeGuard not found in engine.rs")
    flat = re.sub(r"\s+", " ", b)
    if re.search(r"OpaqueReferenceNursery::free_n\(\s*self\.count\s*\)", flat):
        return "asFound"
    if re.search(r"OpaqueReferenceNursery::free_to\(\s*self\.mark\s*\)", flat):
        return "toMark"
    raise Broken("cannot classify how LifetimeGuard::drop frees the nursery: " + flat[:200])


def drop_policy(src):
    """`Drop for BorrowedObject` (gc.rs): does it release the parent's borrow flag unconditionally (as found), or only
    when no reference derived from the dropped one is alive (child_borrow_flag clear and borrow_count zero)?"""
    b = find_block(src, r"impl<T>\s+Drop\s+for\s+BorrowedObject<T>\s*\{", "BorrowedObject")
    if b is None:
        raise Broken("impl Drop for BorrowedObject not found in gc.rs")
    flat = re.sub(r"\s+", " ", b)
    st = flat.find("parent_borrow_flag .store(false")
    if st < 0:
        st = flat.find("parent_borrow_flag.store(false")
    if st < 0:
        raise Broken("Drop for BorrowedObject does not release the parent's borrow flag: " + flat[:200])
    head = flat[:st]
    if "child_borrow_flag" in head and "borrow_count" in head and "return" in head:
        return "guarded"
    if "child_borrow_flag" in head or "borrow_count" in head or "if " in head:
        raise Broken("cannot classify the condition in Drop for BorrowedObject: " + flat[:300])
    return "asFound"


def derive_getter_loops(src):
    """the four getter loops of `derive_steel_impl` (steel-derive/src/lib.rs), in source order: named struct, tuple struct,
    named enum variant, tuple enum variant.  For each: how the accessor is numbered / named relative to #[steel(ignore)]:
      byName    the loop walks ALL fields, skips the ignored ones, and names the accessor after the field
      declared  `fields.iter().enumerate()` then `continue` on ignored: index = declared position
      filtered  `.filter(not ignored).enumerate()`: index = position among the non-ignored fields (still used as the
                tuple position and in the name)"""
    i = src.find("fn derive_steel_impl")
    j = src.find("\nfn ", i + 10)
    if i < 0:
        raise Broken("derive_steel_impl not found in steel-derive/src/lib.rs")
    body = src[i:j if j > 0 else len(src)]
    out = []
    for m in re.finditer(r"if should_impl_getters\s*\{", body):
        blk = re.sub(r"\s+", " ", block_at(body, m.end() - 1))
        filt = re.search(r"\.filter\(\s*\|\w+\|\s*filter_out_ignored\(\w+\)\s*\)\s*\.enumerate\(\)", blk)
        enum = ".enumerate()" in blk
        skip = re.search(r"if !filter_out_ignored\(\w+\) \{ continue; \}", blk)
        if "for " not in blk and "filter_out_ignored" not in blk:
            continue                         # unit variant: no fields, no accessor loop
        if filt:
            out.append("filtered")
        elif enum and skip:
            out.append("declared")
        elif not enum and skip and re.search(r"\.ident", blk):
            out.append("byName")
        else:
            raise Broken("cannot classify a getter loop of derive_steel_impl: " + blk[:240])
    if len(out) != 4:
        raise Broken("derive_steel_impl has %d getter loops, 4 expected (named / tuple struct, named / tuple variant)" % len(out))
    if out[0] != "byName" or out[2] != "byName":
        raise Broken("the getter loops for named fields are no longer by field name: %s" % out)
    if "byName" in (out[1], out[3]):
        raise Broken("a tuple getter loop classified as byName: %s" % out)
    return out


def option_none_via_from(src):
    """what `impl<T: Into<SteelVal>> From<Option<T>> for SteelVal` returns for `None`"""
    b = find_block(src, r"impl<T:\s*Into<SteelVal>>\s+From<Option<T>>\s+for\s+SteelVal\s*\{", "From<Option<T>>")
    if b is None:
        raise Broken("impl From<Option<T>> for SteelVal not found in primitives.rs")
    flat = re.sub(r"\s+", " ", b)
    m = re.search(r"if let Some\((\w+)\) = val \{ \1\.into\(\) \} else \{ SteelVal::BoolV\((true|false)\) \}", flat)
    if not m:
        raise Broken("cannot classify the None arm of From<Option<T>>: " + flat[:200])
    return m.group(2)


def tuple_length_checks(src):
    """{arity: exact?} for every `impl FromSteelVal for (A, B, ..)` of conversions.rs: does the impl reject a
    list whose length differs from the arity (`l.len() != n` -> Err, or an iterator that is checked to have ended)?"""
    out = {}
    for m in re.finditer(r"impl<[^>]*>\s+FromSteelVal\s+for\s+\(([^()]*)\)\s*\{", src):
        params = [x.strip() for x in m.group(1).split(",") if x.strip()]
        n = len(params)
        if n == 0:
            continue
        body = re.sub(r"\s+", " ", block_at(src, m.end() - 1))
        if "ListV" not in body:
            raise Broken("tuple impl of arity %d does not match on a list" % n)
        nexts = len(re.findall(r"\.next\(\)", body))
        if re.search(r"\.len\(\)\s*!=\s*%d\b[^;{]*\{\s*return Err" % n, body) or \
                re.search(r"\.len\(\)\s*==\s*%d\b" % n, body):
            exact = True
        elif nexts >= n + 1 and re.search(r"None|is_none\(\)", body):
            exact = True
        elif nexts == n or (nexts == 0 and re.search(r"\.get\(\s*%d\s*\)" % (n - 1), body)):
            exact = False
        else:
            raise Broken("cannot tell whether the tuple impl of arity %d checks the length: %s" % (n, body[:240]))
        if n in out:
            raise Broken("two FromSteelVal impls for tuples of arity %d" % n)
        out[n] = exact
    if 2 not in out:
        raise Broken("FromSteelVal for (A, B) not found in conversions.rs")
    extra = sorted(k for k in out if k != 2)
    if extra:
        raise Broken("tuple impls of arity %s exist but are not modelled (only pairs are)" % extra)
    return out


def lean(into, frm, regs, policy, optnone, tuples, wrappers, f32from, droppol, dloops):
    L = ["/- GENERATED by translate/c20_convs.py from crates/steel-core/src/primitives.rs and",
         "   steel_vm/register_fn.rs on every run of checks/c20.py.  Do not edit. -/",
         "import SteelVerif.C20.Model", "namespace SteelVerif.C20", "",
         "def genTable : ConvTable where",
         "  intoL := [" + ", ".join("(.%s, .%s)" % (t, into[t]) for t in INTS if t in into) + "]",
         "  fromL := [" + ", ".join("(.%s, .%s)" % (t, frm[t]) for t in INTS if t in frm) + "]",
         "  pairExact := %s" % ("true" if tuples[2] else "false"),
         "  f32Checked := %s" % ("false" if f32from == "asCast" else "true"), "",
         "/-- (method-shaped, arity, args index read for each parameter) per macro invocation -/",
         "def genRegIdx : List (Bool × Nat × List Nat) := ["]
    L += ["  (%s, %d, [%s])," % ("true" if s else "false", a, ", ".join(map(str, ix))) for s, a, ix in regs]
    L[-1] = L[-1].rstrip(",")
    L += ["]", "", "/-- how `LifetimeGuard::drop` frees the nursery -/",
          "def genFreePolicy : Policy := .%s" % policy, "",
          "/-- what `impl From<Option<T>> for SteelVal` maps `None` to -/",
          "def genOptionNoneViaFrom : Bool := %s" % optnone, "",
          "/-- `FromSteelVal for f32` is the unchecked narrowing cast `x as f32` (`try_from_impl!(NumV => f64, f32)`) -/",
          "def genF32FromIsCast : Bool := %s" % ("true" if f32from == "asCast" else "false"), "",
          "/-- `Drop for BorrowedObject` keeps the parent's borrow flag while a derived reference is alive (the repair of K20d) -/",
          "def genDropGuarded : Bool := %s" % ("true" if droppol == "guarded" else "false"), "",
          "/-- how `#[derive(Steel)]` numbers the getters of a tuple struct / of a tuple enum variant (steel-derive) -/",
          "def genTupleStructGetters : GetterNumbering := .%s" % dloops[1],
          "def genTupleVariantGetters : GetterNumbering := .%s" % dloops[3], "",
          "/-- every hand-written wrapper closure of register_fn.rs: (target:marker:fn, arity checked, args indices read) -/",
          "def genWrappers : List (String × Nat × List Nat) := ["]
    L += ["  (\"%s\", %d, [%s])," % (k, a, ", ".join(map(str, ix))) for k, a, ix in wrappers]
    L[-1] = L[-1].rstrip(",")
    L += ["]", "", "end SteelVerif.C20", ""]
    return "\n".join(L)


def main():
    repo = sys.argv[1] if len(sys.argv) > 1 else "/repo"
    out = sys.argv[2] if len(sys.argv) > 2 else "/verif/lean/SteelVerif/C20/GenConvs.lean"
    try:
        prim = strip_comments(open(repo + "/crates/steel-core/src/primitives.rs").read())
        reg = strip_comments(open(repo + "/crates/steel-core/src/steel_vm/register_fn.rs").read())
        into, frm = conv_tables(prim)
        regs = reg_tables(reg)
        wrappers = wrapper_table(reg)
        receivers = self_macro_receivers(reg)
        finto, ffrom = float_paths(prim)
        unmodelled_ints(prim)
        optnone = option_none_via_from(prim)
        tuples = tuple_length_checks(strip_comments(open(repo + "/crates/steel-core/src/conversions.rs").read()))
        policy = free_policy(strip_comments(open(repo + "/crates/steel-core/src/steel_vm/engine.rs").read()))
        dloops = derive_getter_loops(strip_comments(open(repo + "/crates/steel-derive/src/lib.rs").read()))
        droppol = drop_policy(strip_comments(open(repo + "/crates/steel-core/src/gc.rs").read()))
    except (Broken, OSError, ValueError) as e:
        print("c20_convs: %s" % e, file=sys.stderr)
        sys.exit(2)
    text = lean(into, frm, regs, policy, optnone, tuples, wrappers, ffrom["f32"], droppol, dloops)
    try:
        old = open(out).read()
    except OSError:
        old = None
    if old != text:
        with open(out, "w") as f:
            f.write(text)
    print(json.dumps({"into": into, "from": frm,
                      "register_idx": [[s, a, ix] for s, a, ix in regs], "free_policy": policy, "drop_policy": droppol, "derive_getter_loops": dloops, "option_none_via_from": optnone,
                      "tuple_length_checked": {str(k): v for k, v in tuples.items()},
                      "hand_written_wrappers": [[k, a, ix] for k, a, ix in wrappers],
                      "self_macro_receivers": receivers, "float_into": finto, "float_from": ffrom,
                      "changed": old != text}))


if __name__ == "__main__":
    main()
