#!/usr/bin/env python3
"""C20 translator: crates/steel-core/src/primitives.rs + steel_vm/register_fn.rs -> lean/SteelVerif/C20/GenConvs.lean

Extracts
  * for every host integer type the code path of `IntoSteelVal` (asIsize | tryIsizeElseBig |
    gtIsizeMaxElseBig) and of `FromSteelVal` (tryFromInt | asCastInt | tryIntoIntOrBig), from the macro
    definitions (`from_for_isize!`, `try_from_int_impl!`, `try_from_impl!`), their invocation lists
    and the hand-written impls (`impl From<T> for SteelVal`, `impl FromSteelVal for T`);
  * how `LifetimeGuard::drop` (engine.rs) frees the nursery (`free_n(self.count)` as found);
  * the argument-index tables of `impl_register_fn!(n => A:0, ..)` / `impl_register_fn_self!(n => B:1, ..)`
    and whether every generated wrapper checks the arity before it calls the host function.
Anything that does not parse as expected is an error (exit 2): a broken tie, not silence.
Usage: c20_convs.py [REPO] [OUT.lean]     (prints a JSON summary on stdout)
"""
import json
import re
import sys

INTS = ["i8", "i16", "i32", "i64", "isize", "u8", "u16", "u32", "u64", "usize", "u128"]


class Broken(Exception):
    pass


def strip_comments(src):
    src = re.sub(r"/\*.*?\*/", "", src, flags=re.S)
    return "\n".join(l.split("//", 1)[0] if not re.search(r'"[^"]*//[^"]*"', l) else l for l in src.splitlines())


def block_at(src, open_idx):
    """text of the {...} block whose '{' is at open_idx (inclusive of braces)"""
    assert src[open_idx] == "{"
    depth = 0
    for i in range(open_idx, len(src)):
        c = src[i]
        if c == "{":
            depth += 1
        elif c == "}":
            depth -= 1
            if depth == 0:
                return src[open_idx:i + 1]
    raise Broken("unbalanced braces")


def find_block(src, header_re, what):
    m = re.search(header_re, src)
    if not m:
        return None
    i = src.index("{", m.end() - 1) if src[m.end() - 1] != "{" else m.end() - 1
    return block_at(src, i)


def macro_def(src, name):
    b = find_block(src, r"macro_rules!\s+" + re.escape(name) + r"\s*\{", name)
    return b


def invocations(src, name):
    out = []
    for m in re.finditer(r"^\s*" + re.escape(name) + r"!\s*\(([^;]*?)\)\s*;", src, re.M | re.S):
        out.append(m.group(1))
    return out


def classify_into_body(body, who):
    """body of an `impl From<T> for SteelVal` / IntoSteelVal impl or macro arm producing an IntV"""
    b = re.sub(r"\s+", " ", body)
    has_big = "BigNum" in b
    if re.search(r"TryInto::<isize>::try_into|isize::try_from|try_into\(\)", b) and has_big:
        return "tryIsizeElseBig"
    if re.search(r">\s*isize::MAX as", b) and has_big and re.search(r"IntV\(\s*\w+ as isize\s*\)", b):
        return "gtIsizeMaxElseBig"
    if re.search(r"IntV\(\s*\w+ as isize\s*\)", b) and not has_big:
        return "asIsize"
    raise Broken("cannot classify the integer injection of %s: %s" % (who, b[:200]))


def classify_from_body(body, who):
    """body of `fn from_steelval` for an integer type"""
    b = re.sub(r"\s+", " ", body)
    arms = {}
    for kind in ("IntV", "BigNum"):
        m = re.search(r"SteelVal::" + kind + r"\((\w+)\)\s*=>\s*(.*?)(?=SteelVal::\w+\(|_ =>)", b)
        if m:
            arms[kind] = m.group(2)
    if "IntV" not in arms:
        raise Broken("no IntV arm in the integer extraction of %s: %s" % (who, b[:200]))

    def checked(arm):
        if re.search(r"try_into\(\)|try_from\(|TryInto::|TryFrom::", arm):
            return True
        if re.search(r"\bas\s+(\$\w+|[iu](8|16|32|64|128|size))\b", arm):
            return False
        raise Broken("cannot tell whether the %s arm of %s is checked: %s" % ("?", who, arm[:160]))

    c_int = checked(arms["IntV"])
    if not c_int:
        if "BigNum" in arms:
            raise Broken("unmodelled mix in %s: `as` on IntV with a BigNum arm" % who)
        return "asCastInt"
    if "BigNum" in arms:
        if not checked(arms["BigNum"]):
            raise Broken("unmodelled: unchecked BigNum arm in %s" % who)
        return "tryIntoIntOrBig"
    return "tryFromInt"


def conv_tables(src):
    into, frm, origin = {}, {}, {}

    def put(tab, t, path, where):
        if t not in INTS:
            return
        if t in tab:
            raise Broken("two impls for %s (%s and %s)" % (t, origin[(id(tab), t)], where))
        tab[t] = path
        origin[(id(tab), t)] = where

    # --- macros generating IntoSteelVal
    for mac in ("from_for_isize",):
        d = macro_def(src, mac)
        invs = invocations(src, mac)
        if d is None:
            if invs:
                raise Broken("%s! is invoked but not defined" % mac)
            continue
        m = re.search(r"impl\s+IntoSteelVal\s+for\s+\$body\s*\{", d)
        if not m:
            raise Broken("%s!: no `impl IntoSteelVal for $body`" % mac)
        body = block_at(d, d.index("{", m.end() - 1))
        path = classify_into_body(body.replace("self", "val"), mac + "!")
        for inv in invs:
            for t in [x.strip() for x in inv.split(",") if x.strip()]:
                put(into, t, path, mac + "!")
    # --- macros generating FromSteelVal
    for mac in ("try_from_int_impl", "try_from_impl"):
        d = macro_def(src, mac)
        invs = invocations(src, mac)
        if d is None:
            if invs:
                raise Broken("%s! is invoked but not defined" % mac)
            continue
        m = re.search(r"impl\s+FromSteelVal\s+for\s+\$body\s*\{", d)
        if not m:
            raise Broken("%s!: no `impl FromSteelVal for $body`" % mac)
        body = block_at(d, d.index("{", m.end() - 1))
        for inv in invs:
            variant = "IntV"
            lst = inv
            mm = re.match(r"\s*(\w+)\s*=>\s*(.*)", inv, re.S)
            if mm:
                variant, lst = mm.group(1), mm.group(2)
            types = [x.strip() for x in lst.split(",") if x.strip()]
            if variant != "IntV":
                if any(t in INTS for t in types):
                    raise Broken("%s!(%s => ..) covers an integer type" % (mac, variant))
                continue
            path = classify_from_body(body.replace("$type", "IntV"), mac + "!")
            for t in types:
                put(frm, t, path, mac + "!")
    # --- hand-written impls
    for t in INTS:
        b = find_block(src, r"impl\s+From<" + t + r">\s+for\s+SteelVal\s*\{", t)
        bi = find_block(src, r"impl\s+IntoSteelVal\s+for\s+" + t + r"\s*\{", t)
        if bi is not None:
            flat = re.sub(r"\s+", " ", bi)
            if re.search(r"Ok\(\s*(self\.into\(\)|SteelVal::from\(self\))\s*\)", flat):
                if b is None:
                    raise Broken("IntoSteelVal for %s delegates to a missing From<%s>" % (t, t))
                put(into, t, classify_into_body(b, "From<%s>" % t), "impl From<%s>" % t)
            else:
                put(into, t, classify_into_body(bi.replace("self", "val"), "IntoSteelVal for " + t),
                    "impl IntoSteelVal for " + t)
        elif b is not None and t not in into:
            raise Broken("From<%s> exists without IntoSteelVal for %s" % (t, t))
        bf = find_block(src, r"impl\s+FromSteelVal\s+for\s+" + t + r"\s*\{", t)
        if bf is not None:
            put(frm, t, classify_from_body(bf, "FromSteelVal for " + t), "impl FromSteelVal for " + t)
    missing = [t for t in INTS if t not in into]
    if missing:
        raise Broken("no IntoSteelVal impl found for %s" % missing)
    return into, frm


def reg_tables(src):
    out = []
    for mac, is_self in (("impl_register_fn", False), ("impl_register_fn_self", True)):
        d = macro_def(src, mac)
        if d is None:
            raise Broken("%s! not found" % mac)
        # every generated closure checks the arity before it calls the host function
        closures = [m.start() for m in re.finditer(r"let f = move \|args", d)]
        if not closures:
            raise Broken("%s!: no wrapper closure" % mac)
        for c in closures:
            seg = d[c:c + 1500]
            a = seg.find("args.len() != $arg_count")
            b = seg.find("ArityMismatch")
            f = seg.find("func(")
            if not (0 <= a < b < f):
                raise Broken("%s!: a wrapper does not check the arity before calling the function" % mac)
            call = seg[f:seg.index(";", f)]
            if "from_steelval(&args[$idx])" not in re.sub(r"\s+", "", call).replace("<$param>::", ""):
                raise Broken("%s!: parameters are not extracted with from_steelval(&args[$idx])" % mac)
        invs = invocations(src, mac)
        if not invs:
            raise Broken("%s! is never invoked" % mac)
        for inv in invs:
            m = re.match(r"\s*(\d+)\s*=>\s*(.*)", inv, re.S)
            if not m:
                raise Broken("cannot parse %s!(%s)" % (mac, inv))
            arity = int(m.group(1))
            idxs = []
            for part in m.group(2).split(","):
                mm = re.match(r"\s*(\w+)\s*:\s*(\d+)\s*$", part)
                if not mm:
                    raise Broken("cannot parse parameter `%s` of %s!(%s)" % (part, mac, inv))
                idxs.append(int(mm.group(2)))
            if len(idxs) != arity - (1 if is_self else 0):
                raise Broken("%s!(%d => ..) lists %d parameters" % (mac, arity, len(idxs)))
            out.append((is_self, arity, idxs))
    return out


def free_policy(src):
    """how `LifetimeGuard::drop` (engine.rs) frees the nursery at the end of a lending call"""
    b = find_block(src, r"impl<'a>\s+Drop\s+for\s+LifetimeGuard<'a>\s*\{", "LifetimeGuard")
    if b is None:
        raise Broken("impl Drop for LifetimeGuard not found in engine.rs")
    flat = re.sub(r"\s+", " ", b)
    if re.search(r"OpaqueReferenceNursery::free_n\(\s*self\.count\s*\)", flat):
        return "asFound"
    if re.search(r"OpaqueReferenceNursery::free_to\(\s*self\.mark\s*\)", flat):
        return "toMark"
    raise Broken("cannot classify how LifetimeGuard::drop frees the nursery: " + flat[:200])


def option_none_via_from(src):
    """what `impl<T: Into<SteelVal>> From<Option<T>> for SteelVal` returns for `None`"""
    b = find_block(src, r"impl<T:\s*Into<SteelVal>>\s+From<Option<T>>\s+for\s+SteelVal\s*\{", "From<Option<T>>")
    if b is None:
        raise Broken("impl From<Option<T>> for SteelVal not found in primitives.rs")
    flat = re.sub(r"\s+", " ", b)
    m = re.search(r"if let Some\((\w+)\) = val \{ \1\.into\(\) \} else \{ SteelVal::BoolV\((true|false)\) \}", flat)
    if not m:
        raise Broken("cannot classify the None arm of From<Option<T>>: " + flat[:200])
    return m.group(2)


def tuple_length_checks(src):
    """{arity: exact?} for every `impl FromSteelVal for (A, B, ..)` of conversions.rs: does the impl reject a
    list whose length differs from the arity (`l.len() != n` -> Err, or an iterator that is checked to have ended)?"""
    out = {}
    for m in re.finditer(r"impl<[^>]*>\s+FromSteelVal\s+for\s+\(([^()]*)\)\s*\{", src):
        params = [x.strip() for x in m.group(1).split(",") if x.strip()]
        n = len(params)
        if n == 0:
            continue
        body = re.sub(r"\s+", " ", block_at(src, m.end() - 1))
        if "ListV" not in body:
            raise Broken("tuple impl of arity %d does not match on a list" % n)
        nexts = len(re.findall(r"\.next\(\)", body))
        if re.search(r"\.len\(\)\s*!=\s*%d\b[^;{]*\{\s*return Err" % n, body) or \
                re.search(r"\.len\(\)\s*==\s*%d\b" % n, body):
            exact = True
        elif nexts >= n + 1 and re.search(r"None|is_none\(\)", body):
            exact = True
        elif nexts == n or (nexts == 0 and re.search(r"\.get\(\s*%d\s*\)" % (n - 1), body)):
            exact = False
        else:
            raise Broken("cannot tell whether the tuple impl of arity %d checks the length: %s" % (n, body[:240]))
        if n in out:
            raise Broken("two FromSteelVal impls for tuples of arity %d" % n)
        out[n] = exact
    if 2 not in out:
        raise Broken("FromSteelVal for (A, B) not found in conversions.rs")
    extra = sorted(k for k in out if k != 2)
    if extra:
        raise Broken("tuple impls of arity %s exist but are not modelled (only pairs are)" % extra)
    return out


def lean(into, frm, regs, policy, optnone, tuples):
    L = ["/- GENERATED by translate/c20_convs.py from crates/steel-core/src/primitives.rs and",
         "   steel_vm/register_fn.rs on every run of checks/c20.py.  Do not edit. -/",
         "import SteelVerif.C20.Model", "namespace SteelVerif.C20", "",
         "def genTable : ConvTable where",
         "  intoL := [" + ", ".join("(.%s, .%s)" % (t, into[t]) for t in INTS if t in into) + "]",
         "  fromL := [" + ", ".join("(.%s, .%s)" % (t, frm[t]) for t in INTS if t in frm) + "]",
         "  pairExact := %s" % ("true" if tuples[2] else "false"), "",
         "/-- (method-shaped, arity, args index read for each parameter) per macro invocation -/",
         "def genRegIdx : List (Bool × Nat × List Nat) := ["]
    L += ["  (%s, %d, [%s])," % ("true" if s else "false", a, ", ".join(map(str, ix))) for s, a, ix in regs]
    L[-1] = L[-1].rstrip(",")
    L += ["]", "", "/-- how `LifetimeGuard::drop` frees the nursery -/",
          "def genFreePolicy : Policy := .%s" % policy, "",
          "/-- what `impl From<Option<T>> for SteelVal` maps `None` to -/",
          "def genOptionNoneViaFrom : Bool := %s" % optnone, "", "end SteelVerif.C20", ""]
    return "\n".join(L)


def main():
    repo = sys.argv[1] if len(sys.argv) > 1 else "/repo"
    out = sys.argv[2] if len(sys.argv) > 2 else "/verif/lean/SteelVerif/C20/GenConvs.lean"
    try:
        prim = strip_comments(open(repo + "/crates/steel-core/src/primitives.rs").read())
        reg = strip_comments(open(repo + "/crates/steel-core/src/steel_vm/register_fn.rs").read())
        into, frm = conv_tables(prim)
        regs = reg_tables(reg)
        optnone = option_none_via_from(prim)
        tuples = tuple_length_checks(strip_comments(open(repo + "/crates/steel-core/src/conversions.rs").read()))
        policy = free_policy(strip_comments(open(repo + "/crates/steel-core/src/steel_vm/engine.rs").read()))
    except (Broken, OSError, ValueError) as e:
        print("c20_convs: %s" % e, file=sys.stderr)
        sys.exit(2)
    text = lean(into, frm, regs, policy, optnone, tuples)
    try:
        old = open(out).read()
    except OSError:
        old = None
    if old != text:
        with open(out, "w") as f:
            f.write(text)
    print(json.dumps({"into": into, "from": frm,
                      "register_idx": [[s, a, ix] for s, a, ix in regs], "free_policy": policy, "option_none_via_from": optnone,
                      "tuple_length_checked": {str(k): v for k, v in tuples.items()},
                      "changed": old != text}))


if __name__ == "__main__":
    main()
