#!/usr/bin/env python3
"""C16/C17 translator: how built-in functions are invoked, and whether the call publishes the thread.

Reads (never writes) /repo/crates/steel-core/src/steel_vm/{vm.rs, vm/jit.rs, transducers.rs, lazy_stream.rs,
primitives.rs} and /repo/crates/steel-core/src/jit2/cgen.rs and regenerates
  lean/SteelVerif/C16/GenCallPaths.lean   every match arm that calls a plain built-in (`SteelVal::FuncV`,
        `BoxedFunction`) — these are the value kinds of ALL blocking built-ins (channel/recv, thread-join!,
        lock-acquire!, time/sleep-ms, read-line, receivers-select …) — with the enclosing function and whether
        the arm wraps the call in `enter_safepoint` / `enter_safepoint_once` (directly or by delegating to
        `call_primitive_func` / `call_boxed_func`);
  lean/SteelVerif/C17/GenPolls.lean       the poll of the dispatch loop, the opcodes the JIT compiles to a native
        back-edge and whether the back-edge code contains a poll / deopt check.
Prints what it extracted (JSON) on stdout.  An extraction that no longer parses exits 2 (broken tie).
"""
import json
import os
import re
import sys

REPO = "/repo/crates/steel-core/src"
VERIF = os.path.dirname(os.path.dirname(os.path.abspath(__file__)))
FILES = ["steel_vm/vm.rs", "steel_vm/vm/jit.rs", "steel_vm/transducers.rs", "steel_vm/lazy_stream.rs"]
PUBLISHING_DELEGATES = ("call_primitive_func", "call_boxed_func", "call_builtin_published", "call_builtin_published_on_stack")


def strip_comments(src):
    out = []
    for line in src.split("\n"):
        s = line
        i = s.find("//")
        # keep strings intact enough for our purposes: a `//` inside a string literal is rare here
        if i >= 0 and s[:i].count('"') % 2 == 0:
            s = s[:i]
        out.append(s)
    return "\n".join(out)


def balanced(src, i):
    """src[i] == '{' -> index after the matching '}'."""
    depth = 0
    j = i
    while j < len(src):
        c = src[j]
        if c == "{":
            depth += 1
        elif c == "}":
            depth -= 1
            if depth == 0:
                return j + 1
        j += 1
    raise ValueError("unbalanced braces")


def arm_body(src, i):
    """i = index just after '=>'.  Returns the text of the arm."""
    j = i
    while src[j] in " \n\t":
        j += 1
    if src[j] == "{":
        return src[j:balanced(src, j)]
    depth = 0
    k = j
    while k < len(src):
        c = src[k]
        if c in "({[":
            depth += 1
        elif c in ")}]":
            if depth == 0:
                break
            depth -= 1
        elif c == "," and depth == 0:
            break
        k += 1
    return src[j:k]


FN = re.compile(r"^\s*(?:pub(?:\([a-z]+\))?\s+)?(?:unsafe\s+)?(?:extern\s+\"[A-Za-z\-]+\"\s+)?fn\s+([A-Za-z_0-9]+)", re.M)
ARM = re.compile(r"(?:SteelVal::)?(FuncV|BoxedFunction)\(\s*[a-z_]+\s*\)\s*=>")


def extract():
    rows = []
    for rel in FILES:
        path = os.path.join(REPO, rel)
        raw = open(path).read()
        src = strip_comments(raw)
        fns = [(m.start(), m.group(1)) for m in FN.finditer(src)]
        for m in ARM.finditer(src):
            body = arm_body(src, m.end())
            if "stop!" in body and "(" not in body.replace("stop!(", ""):
                continue
            encl = "?"
            for pos, name in fns:
                if pos < m.start():
                    encl = name
                else:
                    break
            line = src.count("\n", 0, m.start()) + 1
            calls = bool(re.search(r"\b[a-z_]+(?:\.func\(\))?\s*\(", body))
            direct = "enter_safepoint" in body
            deleg = any(("self.%s(" % d) in body or ("ctx.%s(" % d) in body or ("%s(" % d) in body
                        for d in PUBLISHING_DELEGATES)
            if not calls:
                continue
            is_pred = bool(re.fullmatch(r"\s*(true|false)\s*", body)) or body.strip() in ("true", "false")
            if is_pred:
                continue
            rows.append({"file": rel, "fn": encl, "line": line, "kind": m.group(1),
                         "publishes": bool(direct or deleg)})
        # the delegates themselves: their bodies must contain the safepoint
        for d in PUBLISHING_DELEGATES:
            m = re.search(r"fn\s+%s\b" % d, src)
            if m:
                b0 = src.index("{", m.end())
                body = src[b0:balanced(src, b0)]
                rows.append({"file": rel, "fn": d, "line": src.count("\n", 0, m.start()) + 1,
                             "kind": "delegate", "publishes": "enter_safepoint" in body})
    return rows


def native_backedges():
    cg = strip_comments(open(os.path.join(REPO, "jit2/cgen.rs")).read())
    out = []
    # opcode -> translate function, for the self-tail-call opcodes
    for op in ("SELFTAILCALLNOARITY", "TCOJMP"):
        m = re.search(r"OpCode::%s\s*=>\s*\{" % op, cg)
        if not m:
            m = re.search(r"OpCode::%s\b[^=]*=>\s*\{" % op, cg)
        if not m:
            out.append({"opcode": op, "found": False, "translator": "", "backedge": False, "poll": False})
            continue
        body = cg[m.end() - 1:balanced(cg, m.end() - 1)]
        t = re.search(r"self\.(translate_[a-z_]+)\(", body)
        tname = t.group(1) if t else ""
        tb = ""
        if tname:
            mt = re.search(r"fn\s+%s\b" % tname, cg)
            if mt:
                b0 = cg.index("{", mt.end())
                tb = cg[b0:balanced(cg, b0)]
        backedge = "fake_entry_block" in tb or "entry_block" in tb and "brif" in tb
        poll = any(k in tb for k in ("check_deopt", "safepoint", "paused", "interrupt"))
        out.append({"opcode": op, "found": True, "translator": tname, "backedge": bool(backedge),
                    "poll": bool(poll)})
    vm = strip_comments(open(os.path.join(REPO, "steel_vm/vm.rs")).read())
    loop_poll = bool(re.search(r"loop\s*\{\s*(?:#\[cfg\(steel_verif\)\]\s*\{[^}]*\{[^}]*\}[^}]*\}\s*)?self\.safepoint_or_interrupt\(\)\?;", vm))
    anypoll_cg = any(k in cg for k in ("safepoint", "paused", "synchronizer"))
    return out, loop_poll, anypoll_cg


def gate_sites():
    """Every call of `with_locked_env(` (sync variant) and whether a heap-lock guard taken in a safepoint is bound
    to a NAMED variable (kept until the end of the scope) earlier in the same function."""
    out = []
    for rel in ("steel_vm/vm.rs", "steel_vm/vm/jit.rs", "steel_vm/engine.rs"):
        src = strip_comments(open(os.path.join(REPO, rel)).read())
        fns = [(m.start(), m.group(1)) for m in FN.finditer(src)]
        for m in re.finditer(r"\.with_locked_env\(\s*(?:move\s*)?\|\s*_?[a-z]*\s*,\s*[a-z_]+\s*\|", src):
            start, name = 0, "?"
            for pos, n in fns:
                if pos < m.start():
                    start, name = pos, n
                else:
                    break
            if name == "with_locked_env":
                continue
            before = src[start:m.start()]
            kept = bool(re.search(r"let\s+(?:mut\s+)?(?!_\s*=)[a-z_][a-z_0-9]*\s*=[^;]*?enter_safepoint\(\s*\|\s*thread\s*\|\s*thread\.heap\.lock_arc\(\)\s*\)", before, re.S))
            dropped = bool(re.search(r"let\s+_\s*=[^;]*?enter_safepoint\(\s*\|\s*thread\s*\|\s*thread\.heap\.lock_arc\(\)\s*\)", before, re.S))
            out.append({"file": rel, "fn": name, "line": src.count("\n", 0, m.start()) + 1,
                        "guard_kept": kept and not dropped})
    return out


def enclosing_headers(src, start, pos):
    """Headers (text before the `{`) of the blocks that enclose `pos`, scanning from `start` (a function's `{`)."""
    stack = []
    i = start
    last = start
    while i < pos:
        c = src[i]
        if c == "{":
            hdr = src[last:i]
            hdr = hdr[max(hdr.rfind(";"), hdr.rfind("}")) + 1:]
            stack.append(hdr.strip())
            last = i + 1
        elif c == "}":
            if stack:
                stack.pop()
            last = i + 1
        elif c == ";":
            last = i + 1
        i += 1
    return stack


def trampoline_sites():
    """Every direct call of a compiled callee's native entry `(func)(ctx)` in vm/jit.rs, and whether it sits in a loop."""
    src = strip_comments(open(os.path.join(REPO, "steel_vm/vm/jit.rs")).read())
    fns = [(m.start(), m.group(1)) for m in FN.finditer(src)]
    out = []
    for m in re.finditer(r"\(func\)\(ctx\)", src):
        start, name = 0, "?"
        for pos, n in fns:
            if pos < m.start():
                start, name = pos, n
            else:
                break
        b0 = src.index("{", start)
        hdrs = enclosing_headers(src, b0, m.start())
        in_loop = any(re.match(r"(while|loop|for)\b", h.split("\n")[-1].strip()) or re.search(r"\b(while|loop)\b[^;{}]*$", h)
                      for h in hdrs)
        out.append({"fn": name, "line": src.count("\n", 0, m.start()) + 1, "in_loop": bool(in_loop)})
    return out


SWALLOW = [r"_\s*=>\s*None", r"if\s+let\s+Ok\(", r"\.ok\(\)", r"Err\(_\)\s*=>", r"unwrap_or"]


def iteration_error_sites():
    """Every call of a Steel callback inside the iterator pipelines of transducers.rs / lazy_stream.rs: does the code that
    handles its result (the rest of the enclosing block) drop an `Err`, or fold without short-circuit?"""
    out = []
    for rel in ("steel_vm/transducers.rs", "steel_vm/lazy_stream.rs"):
        src = strip_comments(open(os.path.join(REPO, rel)).read())
        marks = [(m.start(), m.group(1)) for m in re.finditer(r"(?:Transducers|Reducer)::([A-Za-z]+)(?:\([^)]*\))?\s*=>", src)]
        marks += [(m.start(), m.group(1)) for m in FN.finditer(src)]
        marks.sort()
        for m in re.finditer(r"\.(call_func_or_else(?:_two_args|_many_args)?|call_with_one_arg(?:_test::<true>)?|call_with_two_args)\(", src):
            name = "?"
            for pos, n in marks:
                if pos < m.start():
                    name = n
                else:
                    break
            # the enclosing block: walk back to the `{` that is unmatched before the call
            depth, i = 0, m.start()
            while i > 0:
                i -= 1
                if src[i] == "}":
                    depth += 1
                elif src[i] == "{":
                    if depth == 0:
                        break
                    depth -= 1
            end = balanced(src, i)
            region = src[m.start():end]
            swallows = [p for p in SWALLOW if re.search(p, region)]
            # a generic reducer that folds: look at the whole arm
            arm_end = src.find("Reducer::", end) if "Reducer::" in src[end:end + 400] else end + 200
            fold = bool(re.search(r"iter\.fold\(", src[m.start():max(end, arm_end)])) and name == "Generic"
            out.append({"file": rel.split("/")[-1], "stage": name, "line": src.count("\n", 0, m.start()) + 1,
                        "swallows": bool(swallows) or fold, "why": ",".join(swallows) + (",fold" if fold else "")})
    return out


def lean_str(s):
    return '"' + s.replace("\\", "\\\\").replace('"', '\\"') + '"'


def main():
    try:
        rows = extract()
        edges, loop_poll, anypoll_cg = native_backedges()
        gates = gate_sites()
        tramp = trampoline_sites()
        iters = iteration_error_sites()
    except Exception as e:  # noqa
        print(json.dumps({"error": str(e)}))
        return 2
    if len(rows) < 8 or not any(r["fn"] == "call_primitive_func" or r["publishes"] for r in rows):
        print(json.dumps({"error": "too few call arms extracted", "rows": rows}))
        return 2
    g = ["/- GENERATED by translate/c16_callpaths.py from /repo (do not edit). -/",
         "namespace SteelVerif.C16", "",
         "/-- One match arm that calls a plain built-in function value. -/",
         "structure CallPath where", "  file : String", "  fn : String", "  line : Nat",
         "  boxed : Bool        -- `BoxedFunction` (else `FuncV`)",
         "  publishes : Bool    -- wrapped in `enter_safepoint(_once)` (directly or via call_primitive_func / call_boxed_func)",
         "deriving DecidableEq, Repr", "",
         "def callPaths : List CallPath := ["]
    g += ["  ⟨%s, %s, %d, %s, %s⟩," % (lean_str(r["file"]), lean_str(r["fn"]), r["line"],
                                        "true" if r["kind"] == "BoxedFunction" else "false",
                                        "true" if r["publishes"] else "false") for r in rows]
    g[-1] = g[-1].rstrip(",")
    g += ["]", "",
          "/-- A call of `with_locked_env` and whether the heap-lock guard taken before it is kept (bound to a named",
          "variable) until it returns. -/",
          "structure GateSite where", "  file : String", "  fn : String", "  line : Nat", "  guardKept : Bool",
          "deriving DecidableEq, Repr", "", "def gateSites : List GateSite := ["]
    g += ["  ⟨%s, %s, %d, %s⟩," % (lean_str(x["file"]), lean_str(x["fn"]), x["line"],
                                   "true" if x["guard_kept"] else "false") for x in gates]
    g[-1] = g[-1].rstrip(",")
    known = open(os.path.join(VERIF, "KNOWN_FINDINGS.txt")).read()
    open_k16b = re.search(r"^finding:.*\bid=K16b\b", known, re.M) is not None
    exc = sorted({r["fn"] for r in rows if not r["publishes"]}) if open_k16b else []
    g += ["]", "",
          "/-- Functions excused while K16b is an OPEN finding (the functions that still have an unpublished arm); empty once it",
          "is `fixed:` - then a call path of a plain built-in that is not wrapped in a safepoint breaks `blocking_paths_publish`. -/",
          "def openK16b : List String := [%s]" % ", ".join(lean_str(x) for x in exc), "",
          "end SteelVerif.C16", ""]
    os.makedirs(os.path.join(VERIF, "lean/SteelVerif/C16"), exist_ok=True)
    open(os.path.join(VERIF, "lean/SteelVerif/C16/GenCallPathsTable.lean"), "w").write("\n".join(g))
    p = ["/- GENERATED by translate/c16_callpaths.py from /repo (do not edit). -/",
         "namespace SteelVerif.C17", "",
         "structure NativeEdge where", "  opcode : String", "  found : Bool", "  translator : String",
         "  backedge : Bool     -- compiled to a jump to the function's own entry block",
         "  poll : Bool         -- the back-edge code polls / checks for deoptimisation",
         "deriving DecidableEq, Repr", "",
         "def nativeEdges : List NativeEdge := ["]
    p += ["  ⟨%s, %s, %s, %s, %s⟩," % (lean_str(e["opcode"]), "true" if e["found"] else "false",
                                       lean_str(e["translator"]), "true" if e["backedge"] else "false",
                                       "true" if e["poll"] else "false") for e in edges]
    p[-1] = p[-1].rstrip(",")
    p += ["]", "",
          "/-- A direct call `(func)(ctx)` of a compiled callee's native entry from a runtime helper of native code. -/",
          "structure TrampolineSite where", "  fn : String", "  line : Nat", "  inLoop : Bool",
          "deriving DecidableEq, Repr", "", "def trampolineSites : List TrampolineSite := ["]
    p += ["  ⟨%s, %d, %s⟩," % (lean_str(x["fn"]), x["line"], "true" if x["in_loop"] else "false") for x in tramp]
    p[-1] = p[-1].rstrip(",")
    p += ["]", "",
          "/-- A call of a Steel callback inside the iterator pipelines of `transduce` / lazy streams, and whether the code",
          "handling its result drops an error (or folds without short-circuit). -/",
          "structure IterSite where", "  file : String", "  stage : String", "  line : Nat", "  swallows : Bool",
          "deriving DecidableEq, Repr", "", "def iterSites : List IterSite := ["]
    p += ["  ⟨%s, %s, %d, %s⟩," % (lean_str(x["file"]), lean_str(x["stage"]), x["line"],
                                   "true" if x["swallows"] else "false") for x in iters]
    p[-1] = p[-1].rstrip(",")
    p += ["]", "",
          "/-- `loop { self.safepoint_or_interrupt()?; … }` is still the head of the dispatch loop. -/",
          "def dispatchLoopPolls : Bool := %s" % ("true" if loop_poll else "false"), "",
          "/-- jit2/cgen.rs mentions a safepoint / the pause flag anywhere. -/",
          "def cgenMentionsPoll : Bool := %s" % ("true" if anypoll_cg else "false"), "",
          "end SteelVerif.C17", ""]
    open(os.path.join(VERIF, "lean/SteelVerif/C17/GenPollsTable.lean"), "w").write("\n".join(p))
    print(json.dumps({"trampoline_sites": tramp, "iteration_error_sites": iters, "gate_sites": gates, "call_arms": rows, "native_edges": edges, "dispatch_loop_polls": loop_poll,
                      "cgen_mentions_poll": anypoll_cg}, indent=1))
    return 0


if __name__ == "__main__":
    sys.exit(main())
