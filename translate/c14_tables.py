#!/usr/bin/env python3
"""C14 translator (tables): the table-shaped parts of the module system, read from the current source and
written as Lean data (lean/SteelVerif/C14/GenTables.lean):

  * compiler/passes/analysis.rs  remove_unused_globals_with_prefix: every `return false` of the two
    `retain_mut` closures with the `if` conditions that enclose it (is it a define? name starts with the
    prefix? usage_count == 0? body is (%module-get% ..)/(%proto-hash-get% ..)? kept when a macro mentions
    it?), and the prefix the two callers in compiler.rs pass                           -> `pruneSites`
  * compiler/modules.rs          parse_require_object_inner: the keywords of the list arms  -> `requireForms`
  * scheme/modules/contracts.scm bind/c: the dispatch on the arity; apply-contracted-function*: which
    apply-function-contract* each calls and with which parameters; apply-function-contract*: which
    parameter goes through `test-arg` with which pre-condition and position, whether the function is applied
    to exactly those validated values, whether the result goes through `check-output`; test-arg /
    check-output: flat contract = apply the predicate, function contract = wrap with bind/c;
    verify-preconditions-test / map2: all arguments, in order                         -> `contractPaths` …

Props.lean proves (by `decide`) the obligations the model needs of these tables; an extraction that no longer
parses is reported (exit 2), a changed fact makes a theorem fail.
usage: c14_tables.py <repo> <out.lean>      (prints the extracted facts as JSON)
"""
import json
import os
import re
import sys


def strip_rust_comments(src):
    src = re.sub(r"/\*.*?\*/", "", src, flags=re.S)
    return "\n".join(l.split("//", 1)[0] for l in src.splitlines())


def fn_body(src, header_re):
    m = re.search(header_re, src)
    if not m:
        return None
    i = src.index("{", m.end() - 1)
    depth, j = 0, i
    while j < len(src):
        if src[j] == "{":
            depth += 1
        elif src[j] == "}":
            depth -= 1
            if depth == 0:
                return src[i + 1:j]
        j += 1
    return None


def norm(s):
    return re.sub(r"\s+", "", s)


# ---------------------------------------------------------------------------------------------- pruning

def prune_sites(body):
    """[(headers of the enclosing blocks, text of the innermost block before the return)] per `return false;`"""
    sites, stack, i, last = [], [], 0, 0
    while i < len(body):
        c = body[i]
        if c == "{":
            stack.append((body[last:i].strip(), i + 1))
            last = i + 1
        elif c == "}":
            if stack:
                stack.pop()
            last = i + 1
        elif c == ";":
            if body[last:i].strip() == "return false":
                sites.append(([h for h, _ in stack], body[stack[-1][1]:last] if stack else ""))
            last = i + 1
        i += 1
    return sites


def classify_site(headers, before):
    hs = [norm(h) for h in headers]
    joined = "\n".join(hs)
    # the conditions are counted only below the innermost enclosing `retain_mut` closure
    return {
        "define": any("ExprKind::Define(define)" in h for h in hs),
        "prefixed": "ifname.resolve().starts_with(prefix)" in joined,
        "unused": "ifanalysis.usage_count==0" in joined,
        "importBody": "if*func==module_get_interned||*func==proto_hash_get" in joined,
        "macroKeep": bool(re.search(r"iffound\.contains\(name\)\{(offset\+=1;)?returntrue;\}", norm(before))),
    }


# ---------------------------------------------------------------------------------------------- s-expressions

def read_sexps(src):
    toks = re.findall(r"""\s+|;[^\n]*|"(?:\\.|[^"\\])*"|[()\[\]]|'|`|,@|,|[^\s()\[\]'`,;"]+""", src)
    pos = 0

    def parse():
        nonlocal pos
        while pos < len(toks) and (toks[pos].isspace() or toks[pos].startswith(";")):
            pos += 1
        if pos >= len(toks):
            return None
        t = toks[pos]
        pos += 1
        if t in "([":
            out = []
            while True:
                while pos < len(toks) and (toks[pos].isspace() or toks[pos].startswith(";")):
                    pos += 1
                if pos >= len(toks):
                    raise ValueError("unbalanced")
                if toks[pos] in ")]":
                    pos += 1
                    return out
                out.append(parse())
        if t in ("'", "`", ",", ",@"):
            return ["quote" if t == "'" else t, parse()]
        return t
    out = []
    while True:
        e = parse()
        if e is None:
            return out
        out.append(e)


def show(e):
    return e if isinstance(e, str) else "(" + " ".join(show(x) for x in e) + ")"


def defines(forms):
    out = {}
    for f in forms:
        if isinstance(f, list) and len(f) >= 3 and f[0] == "define" and isinstance(f[1], list) and f[1]:
            out[f[1][0]] = (f[1][1:], f[2:])
    return out


def find_all(e, pred):
    if pred(e):
        yield e
    if isinstance(e, list):
        for x in e:
            yield from find_all(x, pred)


def lean_str(s):
    return '"%s"' % s.replace("\\", "\\\\").replace('"', '\\"')


def lean_bool(b):
    return "true" if b else "false"


def main():
    repo, out = sys.argv[1], sys.argv[2]
    facts, errors = {}, []
    core = os.path.join(repo, "crates/steel-core/src")

    # ---- pruning
    ana = strip_rust_comments(open(os.path.join(core, "compiler/passes/analysis.rs")).read())
    body = fn_body(ana, r"fn\s+remove_unused_globals_with_prefix\s*\(")
    sites = []
    if body is None:
        errors.append("fn remove_unused_globals_with_prefix not found")
    else:
        k = body.find("self.exprs.retain_mut(")
        if k < 0:
            errors.append("self.exprs.retain_mut( not found in remove_unused_globals_with_prefix")
        else:
            sites = [classify_site(h, b) for h, b in prune_sites(body[k:])]
    comp = strip_rust_comments(open(os.path.join(core, "compiler/compiler.rs")).read())
    callers = re.findall(r"\.remove_unused_globals_with_prefix\(\s*(\w+)\s*,", comp)
    facts["prune_sites"] = sites
    facts["prune_callers_prefix"] = callers
    if not sites:
        errors.append("no `return false` found in the retain_mut closures")
    if not callers:
        errors.append("no caller of remove_unused_globals_with_prefix in compiler.rs")

    # ---- require forms
    mod = strip_rust_comments(open(os.path.join(core, "compiler/modules.rs")).read())
    prog = strip_rust_comments(open(os.path.join(core, "compiler/program.rs")).read())
    inner = fn_body(mod, r"fn\s+parse_require_object_inner\s*\(") or ""
    if not inner:
        errors.append("fn parse_require_object_inner not found")
    arms = re.findall(r"Some\(x\)\s+if\s+\*x\s*==\s*\*(\w+)\s*=>", inner)
    forms = []
    for a in arms:
        m = re.search(r"\b%s\s*=>\s*\"([^\"]*)\"" % a, prog)
        if not m:
            errors.append("keyword %s not found in program.rs" % a)
        forms.append(m.group(1) if m else a)
    facts["require_forms"] = forms
    facts["require_list_fallback_is_error"] = bool(re.search(r"_\s*=>\s*\{\s*stop!\(BadSyntax\s*=>\s*\"require accepts", inner))
    # for-syntax takes a string literal only (no nested spec)
    fs = inner[inner.find("FOR_SYNTAX"):] if "FOR_SYNTAX" in inner else ""
    facts["for_syntax_takes_string_only"] = ("mod_name.string_literal()" in fs
                                             and "parse_require_object_inner" not in fs.split("_ =>")[0])

    # ---- roll-back: the snapshots of compile_main are taken before anything in it can fail, and both error
    # paths restore the macro environment as well
    cm = fn_body(mod, r"fn\s+compile_main\s*\(")
    if cm is None:
        errors.append("fn compile_main not found")
        cm = ""
    snaps = {"metadata": r"self\.rollback_metadata\s*=\s*self\.file_metadata\.clone\(\)\s*;",
             "modules": r"self\.rollback_modules\s*=\s*Some\(\s*self\.compiled_modules\.clone\(\)\s*\)\s*;",
             "macros": r"self\.rollback_macros\s*=\s*Some\(\s*global_macro_map\.clone\(\)\s*\)\s*;"}
    fallible = [m.start() for m in re.finditer(r"\?\s*[;.)]|stop!\(|return\s+Err", cm)]
    first_fallible = min(fallible) if fallible else len(cm)
    pos = {k: (re.search(v, cm).start() if re.search(v, cm) else None) for k, v in snaps.items()}
    facts["snapshot_positions"] = pos
    facts["first_fallible_position"] = first_fallible
    facts["snapshot_before_fallible"] = all(pos[k] is not None and pos[k] < first_fallible for k in ("metadata", "modules"))
    crp = fn_body(comp, r"fn\s+compile_raw_program\s*\(") or ""
    eng = strip_rust_comments(open(os.path.join(core, "steel_vm/engine.rs")).read())
    rpe = fn_body(eng, r"fn\s+raw_program_to_executable\s*\(") or ""
    if not crp:
        errors.append("fn compile_raw_program not found")
    if not rpe:
        errors.append("fn raw_program_to_executable not found")
    rm_fn = fn_body(mod, r"fn\s+rollback_metadata\s*\(") or ""

    def in_err_branch(body, what):
        m = re.search(r"if\s+res(?:ult)?\.is_err\(\)\s*\{", body)
        if not m:
            return False
        blk = fn_body(body[m.start():], r"if\s+res(?:ult)?\.is_err\(\)\s*\{") or ""
        return bool(re.search(what, blk))
    facts["error_paths_restore_modules"] = (
        in_err_branch(crp, r"module_manager\.rollback_metadata\(\)") and in_err_branch(rpe, r"module_manager\.rollback_metadata\(\)")
        and "self.file_metadata=self.rollback_metadata.clone();" in norm(rm_fn)
        and "ifletSome(modules)=self.rollback_modules.take(){self.compiled_modules=modules;}" in norm(rm_fn))
    facts["macro_env_rolled_back"] = (
        pos["macros"] is not None and pos["macros"] < first_fallible
        and in_err_branch(crp, r"take_rollback_macros\(\)\s*\{\s*self\.macro_env\s*=\s*macros\s*;")
        and in_err_branch(rpe, r"take_rollback_macros\(\)\s*\{\s*guard\.macro_env\s*=\s*macros\s*;"))
    # ---- require modifiers and provided macros (find_in_scope_macros)
    fism = fn_body(mod, r"fn\s+find_in_scope_macros\s*<") or ""
    if not fism:
        errors.append("fn find_in_scope_macros not found")
    ids_branch = else_branch = ""
    mi = re.search(r"if\s+!require_object\.idents_to_import\.is_empty\(\)\s*\{", fism)
    if mi:
        blk = fn_body(fism[mi.start():], r"if\s+!require_object\.idents_to_import\.is_empty\(\)\s*\{") or ""
        ids_branch = norm(blk)
        rest = fism[mi.end() + len(blk) + 1:]
        me = re.match(r"\s*else\s*\{", rest)
        if me:
            else_branch = norm(fn_body(rest, r"else\s*\{") or "")
    k_ids, k_else = (0, 1) if ids_branch and else_branch else (-1, -1)
    facts["macro_only_in_keeps_listed_only"] = (
        k_ids >= 0 and k_else > k_ids and "in_scope_macros.retain(|name,_|listed.contains(name));" in ids_branch
        and ids_branch.count("listed.insert(") == ids_branch.count("in_scope_macros.insert("))
    facts["macro_prefix_covers_for_syntax"] = bool(re.search(
        r"ifletSome\(prefix\)=&require_object\.prefix\{foridentinmodule\.provides_for_syntax\.iter\(\)\{"
        r"ifletSome\(m\)=in_scope_macros\.remove\(ident\)\{in_scope_macros\.insert\(\(prefix\.to_string\(\)\+ident\.resolve\(\)\)\.into\(\),m\);\}\}\}",
        else_branch))

    # ---- contracts
    scm = open(os.path.join(core, "scheme/modules/contracts.scm")).read()
    try:
        ds = defines(read_sexps(scm))
    except ValueError as e:
        errors.append("contracts.scm: %s" % e)
        ds = {}

    def need(name):
        if name not in ds:
            errors.append("contracts.scm: (define (%s …)) not found" % name)
            return [], []
        return ds[name]

    # bind/c: (cond [(= k arity) (lambda (p…) (F contracted-function p… span-expr))] … [else (lambda args (F contracted-function args span-expr))])
    dispatch, else_fn = [], ""
    _, bbody = need("bind/c")
    conds = [c for c in find_all(bbody, lambda e: isinstance(e, list) and e and e[0] == "cond"
                                 and any(isinstance(cl, list) and cl and isinstance(cl[0], list) and cl[0][:1] == ["="]
                                         and "arity" in cl[0] for cl in e[1:]))]
    if len(conds) != 1:
        errors.append("bind/c: expected exactly one (cond [(= k arity) …] …), found %d" % len(conds))
    else:
        for cl in conds[0][1:]:
            lam = cl[1] if len(cl) == 2 and isinstance(cl[1], list) and cl[1][:1] == ["lambda"] else None
            if lam is None or len(lam) != 3 or not isinstance(lam[2], list):
                errors.append("bind/c: clause %s is not [test (lambda params (call …))]" % show(cl)[:60])
                continue
            params, call = lam[1], lam[2]
            if cl[0] == "else":
                ok = params == "args" and call[1:3] == ["contracted-function", "args"] and len(call) == 4
                else_fn = call[0] if ok else ""
                if not ok:
                    errors.append("bind/c: else clause does not pass `args` on")
            else:
                k = int([x for x in cl[0] if isinstance(x, str) and x.isdigit()][0])
                passed = call[2:-1]
                if k == 0:
                    ok = params == [] and passed == [["quote", []]]
                else:
                    ok = isinstance(params, list) and len(params) == k and passed == params
                dispatch.append({"arity": k, "fn": call[0], "ok": bool(ok and call[1] == "contracted-function")})
    facts["contract_dispatch"] = dispatch
    facts["contract_dispatch_else"] = else_fn

    # apply-contracted-function*: (F2 (ContractedFunction-contract cf) (ContractedFunction-name cf) (ContractedFunction-function cf) p… span)
    forwards = []
    for name in sorted(set([d["fn"] for d in dispatch] + ([else_fn] if else_fn else []))):
        params, fbody = need(name)
        call = fbody[-1] if fbody else []
        ok = (isinstance(call, list) and len(call) >= 5 and params[:1] == ["contracted-function"] and params[-1:] == ["span"]
              and call[1:4] == [["ContractedFunction-contract", "contracted-function"],
                                ["ContractedFunction-name", "contracted-function"],
                                ["ContractedFunction-function", "contracted-function"]]
              and call[4:] == params[1:])
        forwards.append({"fn": name, "to": call[0] if isinstance(call, list) and call else "", "ok": bool(ok)})
    facts["contract_forwards"] = forwards

    # apply-function-contract*
    paths = []
    for fw in forwards:
        name = fw["to"]
        params, fbody = need(name)
        row = {"fn": name, "general": False, "tests": [], "applied_to_validated": False, "output_checked": False}
        if params[:3] != ["contract", "name", "function"] or params[-1:] != ["span"]:
            errors.append("%s: unexpected parameter list %s" % (name, show(params)))
            paths.append(row)
            continue
        argp = params[3:-1]
        flat = show(fbody)
        if "(define validated-arguments (verify-preconditions-test contract arguments name span))" in flat:
            row["general"] = True
            row["applied_to_validated"] = "(define output (apply function validated-arguments))" in flat and argp == ["arguments"]
            row["output_checked"] = show(fbody[-1]) == "(check-output output contract name span)"
        else:
            lets = [e for e in find_all(fbody, lambda e: isinstance(e, list) and e[:1] == ["let"])]
            if len(lets) == 1 and len(lets[0]) == 3 and len(lets[0][1]) == 1 and lets[0][1][0][0] == "output":
                call = lets[0][1][0][1]
                tests = []
                good = isinstance(call, list) and call[:1] == ["function"] and len(call) == 1 + len(argp)
                for a in (call[1:] if isinstance(call, list) else []):
                    if (isinstance(a, list) and len(a) == 7 and a[0] == "test-arg" and a[3:6] == ["span", "name", "contract"]
                            and a[2] in argp and a[6].isdigit()):
                        sel = a[1]
                        if sel == ["car", "preconditions"]:
                            pi = 0
                        elif isinstance(sel, list) and sel[:2] == ["list-ref", "preconditions"] and sel[2].isdigit():
                            pi = int(sel[2])
                        else:
                            good = False
                            pi = 99
                        tests.append([pi, argp.index(a[2]), int(a[6])])
                    else:
                        good = False
                row["tests"] = tests
                row["applied_to_validated"] = bool(good) and "(define preconditions (FunctionContract-pre-conditions contract))" in flat
                row["output_checked"] = show(lets[0][2]) == "(check-output output contract name span)"
            else:
                errors.append("%s: body is not (let ([output (function (test-arg …) …)]) (check-output …))" % name)
        paths.append(row)
    facts["contract_paths"] = paths

    # verify-preconditions-test + map2: every argument, in order, position counted from 0
    _, vbody = need("verify-preconditions-test")
    _, m2 = need("map2")
    facts["general_validates_all_in_order"] = (
        show(vbody[-1]) == "(map2 (lambda (arg contract i) (test-arg contract arg span name self-contract i)) arguments "
                           "(FunctionContract-pre-conditions self-contract) (quote ()) 0)"
        and show(m2) == "((if (empty? lst1) (reverse accum) (let ((evaluated (func (car lst1) (car lst2) i))) "
                        "(map2 func (cdr lst1) (cdr lst2) (cons evaluated accum) (+ i 1)))))"
        and "Arity mismatch" in show(vbody[0]))
    # test-arg: flat -> (contract arg) then arg or error; function -> bind/c in both branches
    _, tbody = need("test-arg")
    tflat = show(tbody)
    facts["test_arg_flat_applies_predicate"] = "((FlatContract? contract) (let ((result (if (contract arg) #true (ContractViolation" in tflat \
        and "(if (ContractViolation? result) (error-with-span span" in tflat
    fn_clause = [cl for cl in find_all(tbody, lambda e: isinstance(e, list) and e[:1] == [["FunctionContract?", "contract"]])]
    facts["test_arg_function_wraps"] = (len(fn_clause) == 1 and show(fn_clause[0][1]).startswith("(if (ContractedFunction? arg)")
                                        and show(fn_clause[0][1]).endswith("(bind/c contract arg name span))")
                                        and "(bind/c fc arg name span)" in show(fn_clause[0][1]))
    _, cbody = need("check-output")
    cflat = show(cbody)
    facts["check_output_flat_applies_predicate"] = "((FlatContract? contract) (let ((result (apply-flat-contract contract output)))" in cflat
    facts["check_output_function_wraps"] = "(bind/c fc original-function name span)" in cflat and "(bind/c contract output name span)" in cflat
    _, abody = need("apply-flat-contract")
    facts["apply_flat_is_predicate_call"] = show(abody).startswith("((if (flat-contract arg) #true (ContractViolation")

    # ---- Lean
    def site_lean(s):
        return "⟨%s⟩" % ", ".join(lean_bool(s[k]) for k in ("prefixed", "unused", "importBody", "macroKeep"))
    dsites = [s for s in sites if s["define"]]
    text = """/-
GENERATED by translate/c14_tables.py from crates/steel-core/src/{compiler/passes/analysis.rs,compiler/compiler.rs,
compiler/modules.rs,compiler/program.rs,scheme/modules/contracts.scm} on every run of `./check C14` — do not edit.
-/
namespace SteelVerif.C14.Gen

/-- A `return false` (= remove the expression) of `remove_unused_globals_with_prefix` that sits in a
`ExprKind::Define` arm, with the conditions that enclose it: the name starts with the prefix, `usage_count == 0`,
the body is `(%%module-get%% …)` / `(%%proto-hash-get%% …)`, and it is preceded by "keep it if a macro mentions it". -/
structure PruneSite where
  prefixed : Bool
  unused : Bool
  importBody : Bool
  macroKeep : Bool
deriving Repr, DecidableEq

def pruneDefineSites : List PruneSite := [%s]
/-- removals of expressions that are not defines (the `(%%module-get%% %%-builtin-module-steel/constants 'void)` statement) -/
def pruneOtherSites : Nat := %d
/-- every caller passes MANGLER_PREFIX as the prefix -/
def pruneCallersPassManglerPrefix : Bool := %s

/-- the list forms `parse_require_object_inner` accepts besides a string literal (anything else: BadSyntax) -/
def requireForms : List String := [%s]
def requireOtherListIsError : Bool := %s
/-- `(for-syntax "path")` takes a string literal only, no nested require spec -/
def forSyntaxTakesStringOnly : Bool := %s

/-- `bind/c`: arity `k` is served by `fn`, which `contracts.scm` forwards (contract, name, function, the
parameters in order, span) to `to`; `tests` = (pre-condition index, parameter position, blame position) of each
`test-arg`, in application order; `general` = all arguments through `verify-preconditions-test`. -/
structure ContractPath where
  arity : Option Nat
  lambdaPassesParams : Bool
  forwardOk : Bool
  general : Bool
  tests : List (Nat × Nat × Nat)
  appliedToValidated : Bool
  outputChecked : Bool
deriving Repr, DecidableEq

def contractPaths : List ContractPath := [
%s]
/-- `verify-preconditions-test` = arity check, then `map2 test-arg` over all arguments and pre-conditions from position 0, order kept -/
def generalValidatesAllInOrder : Bool := %s
/-- `test-arg` / `check-output` / `apply-flat-contract`: a flat contract applies the predicate to the value (error if it fails,
else the value itself); a function contract wraps the value with `bind/c` -/
def flatAppliesPredicate : Bool := %s
def functionContractWraps : Bool := %s

/-- `compile_main` takes its roll-back snapshots (file metadata, module table) before anything in it can fail
(`?`, `stop!`, `return Err`), and both error paths (`compile_raw_program`, `raw_program_to_executable`) restore them:
a rejected evaluation restores the state at ITS OWN start, never an older one. -/
def snapshotBeforeAnythingCanFail : Bool := %s
/-- … the macro environment is snapshot there too and restored on both error paths (3bef0920) -/
def macroEnvRolledBack : Bool := %s
/-- `find_in_scope_macros`: an identifier list keeps only the listed macros (`retain` on the inserted names), and
without one the prefix is applied to the `provides_for_syntax` macros as well (0fe3fa8e) -/
def macroModifiersApplied : Bool := %s

end SteelVerif.C14.Gen
"""
    fw = {f["fn"]: f for f in forwards}
    pt = {p["fn"]: p for p in paths}
    rows = []
    for d in dispatch + ([{"arity": None, "fn": else_fn, "ok": True}] if else_fn else []):
        f = fw.get(d["fn"], {"to": "", "ok": False})
        p = pt.get(f["to"], {"general": False, "tests": [], "applied_to_validated": False, "output_checked": False})
        rows.append("  ⟨%s, %s, %s, %s, [%s], %s, %s⟩" % (
            "none" if d["arity"] is None else "some %d" % d["arity"], lean_bool(d["ok"]), lean_bool(f["ok"]),
            lean_bool(p["general"]), ", ".join("(%d, %d, %d)" % tuple(t) for t in p["tests"]),
            lean_bool(p["applied_to_validated"]), lean_bool(p["output_checked"])))
    text = text % (
        ", ".join(site_lean(s) for s in dsites), len(sites) - len(dsites),
        lean_bool(bool(callers) and all(c == "MANGLER_PREFIX" for c in callers)),
        ", ".join(lean_str(f) for f in forms), lean_bool(facts["require_list_fallback_is_error"]),
        lean_bool(facts["for_syntax_takes_string_only"]),
        ",\n".join(rows), lean_bool(facts["general_validates_all_in_order"]),
        lean_bool(facts["test_arg_flat_applies_predicate"] and facts["check_output_flat_applies_predicate"]
                  and facts["apply_flat_is_predicate_call"]),
        lean_bool(facts["test_arg_function_wraps"] and facts["check_output_function_wraps"]),
        lean_bool(facts["snapshot_before_fallible"] and facts["error_paths_restore_modules"]),
        lean_bool(facts["macro_env_rolled_back"]),
        lean_bool(facts["macro_only_in_keeps_listed_only"] and facts["macro_prefix_covers_for_syntax"]))
    old = open(out).read() if os.path.exists(out) else None
    if old != text:
        with open(out, "w") as f:
            f.write(text)
    facts["errors"] = errors
    print(json.dumps(facts))
    sys.exit(2 if errors else 0)


if __name__ == "__main__":
    main()
