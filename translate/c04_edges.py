#!/usr/bin/env python3
"""C04/C19 translator: extract from /repo, on every run,
  * the variants of `enum SteelVal` (rvals.rs) and which of them get a `SteelValPointer` (from_value);
  * for the two copies of the marker's traversal -- `impl BreadthFirstSearchSteelValVisitor for
    MarkAndSweepContext` and `impl BreadthFirstSearchSteelValReferenceVisitor2 for MarkAndSweepContextRefQueue`
    (values/closed.rs) -- per `visit_*` method the list of things it pushes / marks, and the leaf kinds of
    `push_back`; the variant -> `visit_*` dispatch of the two `visit()` loops (rvals/cycles.rs);
  * the roots pushed by `Heap::mark`, by `Synchronizer::enumerate_stacks`, by `live_functions`, and the root
    arguments at every call site of `Heap::allocate* / collection` (steel_vm/*.rs);
and write lean/SteelVerif/C04/GenEdges.lean.

A pushed thing is written as a token: `$` is the visited value, `.f` a field, `[]` "every element",
`Arm.f` the payload of a match arm, `slot($)` marking the slot of a handle, `visit_children($)` the
delegation to a custom type.  Comments are removed first, so commented-out pushes do not count.
"""
import os
import re
import sys

REPO = sys.argv[1] if len(sys.argv) > 1 else "/repo"
OUT = sys.argv[2] if len(sys.argv) > 2 else "/verif/lean/SteelVerif/C04/GenEdges.lean"
CORE = os.path.join(REPO, "crates/steel-core/src")


def die(msg):
    sys.exit("c04_edges: " + msg)


def strip(src):
    """Remove comments and the contents of string literals (keeps the length of lines irrelevant)."""
    out = []
    i, n = 0, len(src)
    while i < n:
        c = src[i]
        if src.startswith("//", i):
            j = src.find("\n", i)
            i = n if j < 0 else j
        elif src.startswith("/*", i):
            depth, i = 1, i + 2
            while i < n and depth:
                if src.startswith("/*", i):
                    depth += 1; i += 2
                elif src.startswith("*/", i):
                    depth -= 1; i += 2
                else:
                    i += 1
        elif c == '"':
            out.append('""')
            i += 1
            while i < n and src[i] != '"':
                i += 2 if src[i] == "\\" else 1
            i += 1
        elif c == "'" and re.match(r"'(\\.|[^\\'])'", src[i:i + 4]):
            m = re.match(r"'(\\.|[^\\'])'", src[i:i + 4])
            out.append("' '")
            i += m.end()
        else:
            out.append(c)
            i += 1
    # attributes (`#[cfg(..)]`, `#[inline]`, …) are not statements
    return re.sub(r"#!?\[[^\[\]]*(\[[^\[\]]*\][^\[\]]*)*\]", "", "".join(out))


def block_at(src, open_idx):
    """src[open_idx] == '{' -> (body, index after the matching '}')."""
    assert src[open_idx] == "{"
    depth = 0
    for j in range(open_idx, len(src)):
        if src[j] == "{":
            depth += 1
        elif src[j] == "}":
            depth -= 1
            if depth == 0:
                return src[open_idx + 1:j], j + 1
    die("unbalanced braces")


def find_block(src, header_re, what):
    m = re.search(header_re, src)
    if not m:
        die("not found: " + what)
    o = src.find("{", m.end() - 1)
    return block_at(src, o)[0]


def methods(impl_body):
    """name -> (first parameter name after self, body) for every `fn name(&mut self, ...) ... { body }`."""
    res = {}
    for m in re.finditer(r"\bfn\s+(\w+)\s*(?:<[^>]*>)?\s*\(", impl_body):
        name = m.group(1)
        # parameter list
        depth, j = 0, m.end() - 1
        while True:
            if impl_body[j] == "(":
                depth += 1
            elif impl_body[j] == ")":
                depth -= 1
                if depth == 0:
                    break
            j += 1
        params = impl_body[m.end():j]
        rest = impl_body[j + 1:]
        k = re.match(r"\s*(->\s*[^{;]+)?\s*([{;])", rest)
        if not k or k.group(2) == ";":
            continue
        o = j + 1 + k.end() - 1
        body, _ = block_at(impl_body, o)
        ps = [p.strip() for p in split_top(params, ",") if p.strip()]
        ps = [p for p in ps if not re.match(r"&?\s*(mut\s+)?self\b", p)]
        first = re.match(r"(?:mut\s+)?(\w+)\s*:", ps[0]).group(1) if ps and re.match(r"(?:mut\s+)?(\w+)\s*:", ps[0]) else None
        res[name] = (first, body)
    return res


def methods_params(impl_body):
    """name -> list of parameter names (without self) for every fn with a body."""
    res = {}
    for m in re.finditer(r"\bfn\s+(\w+)\s*(?:<[^>]*>)?\s*\(", impl_body):
        depth, j = 0, m.end() - 1
        while True:
            if impl_body[j] == "(":
                depth += 1
            elif impl_body[j] == ")":
                depth -= 1
                if depth == 0:
                    break
            j += 1
        ps = [p.strip() for p in split_top(impl_body[m.end():j], ",") if p.strip()]
        ps = [p for p in ps if not re.match(r"&?\s*(mut\s+)?self\b", p)]
        res[m.group(1)] = [re.match(r"(?:mut\s+)?(\w+)\s*:", p).group(1) for p in ps if re.match(r"(?:mut\s+)?(\w+)\s*:", p)]
    return res


def norm_arg(a):
    """Argument of a collection call -> token: `Some(value.clone())` / `&value` -> `value` (`None` stays `None`),
    `values.iter().cloned()` / `values.clone()` / `&values` -> `values`, `core::iter::empty()` -> `empty`."""
    a = re.sub(r"\s+", "", a)
    a = re.sub(r"\.(clone|iter|cloned|into_iter|copied)\(\)", "", a)
    a = re.sub(r"^&(mut)?", "", a)
    a = re.sub(r"^(core|std)::iter::empty\(\)$", "empty", a)
    m = re.match(r"Some\((.*)\)$", a)
    return m.group(1) if m else a


def split_top(s, sep):
    parts, depth, cur = [], 0, []
    i = 0
    while i < len(s):
        c = s[i]
        if c in "([{<" and not (c == "<" and False):
            depth += c != "<"
        elif c in ")]}":
            depth -= 1
        if c == sep and depth == 0:
            parts.append("".join(cur)); cur = []
        else:
            cur.append(c)
        i += 1
    parts.append("".join(cur))
    return parts


def norm(expr, env):
    """Normalise an expression to a token path."""
    e = re.sub(r"\s+", "", expr)
    e = re.sub(r"^\(?[&*]*(mut)?", "", e)
    while e.startswith("(") and e.endswith(")"):
        e = e[1:-1]
        e = re.sub(r"^[&*]+", "", e)
    e = re.sub(r"\.and_then\(\|\w+\|\w+\.(\w+)(?:\.clone\(\))?\)", r".\1", e)
    e = re.sub(r"\.(clone|iter|read|write|borrow|as_ref|as_mut|values|cloned|unwrap|lock|strong_ptr|into_iter)\(\)", "", e)
    e = re.sub(r"\.(car|cdr)_ref\(\)", r".\1", e)
    e = re.sub(r"\(\)", "", e)
    e = e.replace("(*", "").replace(")", "").replace("(", "")
    e = re.sub(r"^[&*]+", "", e)
    m = re.match(r"(\w+)(.*)$", e)
    if not m:
        return e
    head, tail = m.group(1), m.group(2)
    if head in env:
        return env[head] + tail
    return head + tail


def walk(body, env, out, sink_names):
    """Collect tokens of the pushes in `body` (statement level, recursive)."""
    i, n = 0, len(body)
    while i < n:
        rest = body[i:]
        m = re.match(r"\s+", rest)
        if m:
            i += m.end(); continue
        # for PAT in EXPR {
        m = re.match(r"for\s+(.*?)\s+in\s+", rest, re.S)
        if m:
            o = find_open_brace(body, i + m.end())
            it = body[i + m.end():o]
            blk, j = block_at(body, o)
            base = norm(it, env) + "[]"
            e2 = dict(env)
            pat = m.group(1).strip()
            if pat.startswith("("):
                for v in re.findall(r"\w+", pat):
                    e2[v] = base + "." + v
            elif re.match(r"&?\s*\w+$", pat):
                e2[pat.lstrip("&").strip()] = base
            walk(blk, e2, out, sink_names)
            i = j; continue
        # if let Some(VAR) = EXPR {   /  if let Some(VAR) = &EXPR {
        m = re.match(r"if\s+let\s+Some\((\w+)\)\s*=\s*", rest)
        if m:
            o = find_open_brace(body, i + m.end())
            ex = body[i + m.end():o]
            blk, j = block_at(body, o)
            e2 = dict(env); e2[m.group(1)] = norm(ex, env)
            walk(blk, e2, out, sink_names)
            i = j
            # else branch
            m2 = re.match(r"\s*else\s*\{", body[i:])
            if m2:
                blk, j = block_at(body, i + m2.end() - 1)
                walk(blk, env, out, sink_names); i = j
            continue
        m = re.match(r"(if|while)\b", rest)
        if m:
            o = find_open_brace(body, i + m.end())
            blk, j = block_at(body, o)
            walk(blk, env, out, sink_names)
            i = j
            m2 = re.match(r"\s*else\s*\{", body[i:])
            if m2:
                blk, j = block_at(body, i + m2.end() - 1)
                walk(blk, env, out, sink_names); i = j
            continue
        # match EXPR { arms }
        m = re.match(r"match\s+", rest)
        if m:
            o = find_open_brace(body, i + m.end())
            blk, j = block_at(body, o)
            walk_arms(blk, env, out, sink_names)
            i = j; continue
        m = re.match(r"(unsafe|loop)\s*\{", rest)
        if m:
            blk, j = block_at(body, i + m.end() - 1)
            walk(blk, env, out, sink_names); i = j; continue
        if rest[0] == "{":
            blk, j = block_at(body, i)
            walk(blk, env, out, sink_names); i = j; continue
        # let VAR = EXPR;
        j = stmt_end(body, i)
        stmt = body[i:j]
        m = re.match(r"let\s+(?:mut\s+)?(\w+)(?:\s*:[^=]+)?\s*=\s*(.*?);?\s*$", stmt, re.S)
        if m and "{" not in m.group(2):
            env = dict(env); env[m.group(1)] = norm(m.group(2), env)
        cm = re.search(r"\w+\s*\(\s*([\w.&*]+)\s*,\s*\|(\w+)\|\s*\{", stmt)
        if cm:
            blk, _ = block_at(stmt, cm.end() - 1)
            e2 = dict(env); e2[cm.group(2)] = norm(cm.group(1), env)
            walk(blk, e2, out, sink_names)
        else:
            scan_calls(stmt, env, out, sink_names)
        i = j
    return out


def find_open_brace(body, start):
    depth = 0
    for j in range(start, len(body)):
        c = body[j]
        if c in "([":
            depth += 1
        elif c in ")]":
            depth -= 1
        elif c == "{" and depth == 0:
            return j
    die("no block after control keyword")


def stmt_end(body, i):
    depth = 0
    for j in range(i, len(body)):
        c = body[j]
        if c in "([{":
            depth += 1
        elif c in ")]}":
            depth -= 1
        elif c == ";" and depth == 0:
            return j + 1
    return len(body)


def walk_arms(blk, env, out, sink_names):
    i, n = 0, len(blk)
    while i < n:
        m = re.match(r"\s*,?\s*", blk[i:])
        i += m.end()
        if i >= n:
            break
        a = blk.find("=>", i)
        if a < 0:
            break
        pat = blk[i:a].strip()
        e2 = dict(env)
        pm = re.match(r"(?:[\w:]+::)?(\w+)\s*\((\w+)\)$", pat)
        if pm:
            e2[pm.group(2)] = pm.group(1)
        j = a + 2
        m = re.match(r"\s*", blk[j:]); j += m.end()
        if j < n and blk[j] == "{":
            body, k = block_at(blk, j)
            walk(body, e2, out, sink_names)
            i = k
        else:
            depth, k = 0, j
            while k < n:
                c = blk[k]
                if c in "([{":
                    depth += 1
                elif c in ")]}":
                    depth -= 1
                elif c == "," and depth == 0:
                    break
                k += 1
            scan_calls(blk[j:k], e2, out, sink_names)
            i = k + 1


def call_args(stmt, start):
    depth = 0
    for j in range(start, len(stmt)):
        if stmt[j] == "(":
            depth += 1
        elif stmt[j] == ")":
            depth -= 1
            if depth == 0:
                return stmt[start + 1:j]
    return stmt[start + 1:]


def scan_calls(stmt, env, out, sink_names):
    fe = r"\.for_each\(\|(\w+)\|\s*(\w+)\.push_back\((\w+)(?:\.clone\(\))?\)\)"
    for m in re.finditer(fe, stmt):
        if m.group(2) in sink_names and m.group(1) == m.group(3):
            pre = stmt[:m.start()]
            base = re.split(r"[;{}]\s*", pre)[-1]
            out.append(norm(base, env) + "[]")
    stmt = re.sub(fe, "", stmt)
    for m in re.finditer(r"(\w+)\.(push_back|mark_heap_reference|mark_heap_vector)\s*\(", stmt):
        if m.group(1) not in sink_names:
            continue
        arg = call_args(stmt, m.end() - 1)
        t = norm(arg, env)
        out.append(t if m.group(2) == "push_back" else "slot(%s)" % t)
    for m in re.finditer(r"([\w.()]+)\.visit_children\s*\(", stmt):
        out.append("visit_children(%s)" % norm(m.group(1), env))


def visit_table(impl_body, sink_names=("self",)):
    tbl = {}
    for name, (param, body) in methods(impl_body).items():
        if not name.startswith("visit_"):
            continue
        env = {param: "$"} if param else {}
        toks = []
        walk(body, env, toks, sink_names)
        tbl[name] = dedup(toks)
    return tbl


def dedup(xs):
    out = []
    for x in xs:
        if x not in out:
            out.append(x)
    return out


def leaf_list(impl_body):
    ms = methods(impl_body)
    if "push_back" not in ms:
        die("push_back not found")
    body = ms["push_back"][1]
    m = re.search(r"match\s+&?\w+\s*\{(.*?)=>\s*\(\s*\)", body, re.S)
    if not m:
        die("leaf arm of push_back not found")
    return re.findall(r"SteelVal::(\w+)", m.group(1))


def dispatch(trait_body, prefix):
    ms = methods(trait_body)
    if "visit" not in ms:
        die("visit loop not found")
    body = ms["visit"][1]
    res = []
    for m in re.finditer(r"(?:%s)?(\w+)\s*(?:\(\w*\))?\s*=>\s*\{?\s*self\.(visit_\w+)" % prefix, body):
        res.append((m.group(1), m.group(2)))
    if not res:
        die("no dispatch arms")
    return res


def lean_list(xs):
    return "[" + ", ".join('"%s"' % x for x in xs) + "]"


def lean_table(tbl):
    return "[\n" + ",\n".join('  ("%s", %s)' % (k, lean_list(v)) for k, v in tbl) + "]"


def main():
    closed = strip(open(os.path.join(CORE, "values/closed.rs")).read())
    cycles = strip(open(os.path.join(CORE, "rvals/cycles.rs")).read())
    rvals = strip(open(os.path.join(CORE, "rvals.rs")).read())
    vm = strip(open(os.path.join(CORE, "steel_vm/vm.rs")).read())

    # SteelVal variants
    enum = find_block(rvals, r"pub\s+enum\s+SteelVal\s*\{", "enum SteelVal")
    variants = [m.group(1) for m in re.finditer(r"(?m)^\s*(\w+)\s*(?:\(|,)", enum)]
    if len(variants) < 30:
        die("enum SteelVal: only %d variants extracted" % len(variants))
    # SteelValPointer::from_value
    fv = find_block(rvals, r"fn\s+from_value\s*\(\s*value\s*:\s*&SteelVal\s*\)\s*->\s*Option<Self>\s*\{", "SteelValPointer::from_value")
    pointer = dedup(re.findall(r"(?:SteelVal::)?(\w+)\s*\(\w+\)\s*=>\s*Some\(\s*Self::", fv))
    if not pointer:
        die("from_value arms not extracted")

    implA = find_block(closed, r"impl<'a>\s+BreadthFirstSearchSteelValVisitor\s+for\s+MarkAndSweepContext<'a>\s*\{", "impl … for MarkAndSweepContext")
    implB = find_block(closed, r"impl<'a>\s+BreadthFirstSearchSteelValReferenceVisitor2<'a>\s+for\s+MarkAndSweepContextRefQueue<'a>\s*\{", "impl … for MarkAndSweepContextRefQueue")
    edgesA, edgesB = visit_table(implA), visit_table(implB)
    leafA, leafB = leaf_list(implA), leaf_list(implB)
    traitA = find_block(cycles, r"pub\s+trait\s+BreadthFirstSearchSteelValVisitor\s*\{", "trait BreadthFirstSearchSteelValVisitor")
    traitB = find_block(cycles, r"pub\(crate\)\s+trait\s+BreadthFirstSearchSteelValReferenceVisitor2<'a>\s*\{", "trait …ReferenceVisitor2")
    dispA = dispatch(traitA, r"SteelVal::")
    dispB = dispatch(traitB, r"SteelValPointer::")
    # mark_heap_reference / mark_heap_vector of both contexts push the slot's contents
    inhA = find_block(closed, r"impl<'a>\s+MarkAndSweepContext<'a>\s*\{", "impl MarkAndSweepContext")
    inhB = find_block(closed, r"impl<'a>\s+MarkAndSweepContextRefQueue<'a>\s*\{", "impl MarkAndSweepContextRefQueue")
    slotA, slotB = {}, {}
    for inh, tbl in ((inhA, slotA), (inhB, slotB)):
        for name, (param, body) in methods(inh).items():
            if name.startswith("mark_heap"):
                toks = []
                walk(body, {param: "$"}, toks, ("self",))
                tbl[name] = dedup(toks)
        if set(tbl) != {"mark_heap_reference", "mark_heap_vector"}:
            die("mark_heap_* not found")

    # roots
    heap_impl = find_block(closed, r"\nimpl\s+Heap\s*\{", "impl Heap")
    hm = methods(heap_impl)
    if "mark" not in hm:
        die("Heap::mark not found")
    roots_mark = []
    walk(hm["mark"][1], {}, roots_mark, ("context",))
    if "synchronizer.enumerate_stacks(&mutcontext)" in re.sub(r"\s+", "", hm["mark"][1]):
        roots_mark.append("enumerate_stacks")
    if re.search(r"MARKER\s*\.\s*mark\s*\(\s*context\.queue\s*\)", hm["mark"][1]):
        roots_mark.append("MARKER.mark(queue)")
    if re.search(r"context\.queue\.clear\(\)", hm["mark"][1]):
        roots_mark.append("queue.clear")
    # every call of the marker entry point `mark_and_sweep_new` inside `impl Heap`, with the enclosing function and
    # its parameters; and the calls among the collection routines (`allocate` -> `value_collection` …)
    hparams = methods_params(heap_impl)
    mark_sites, coll_calls = [], []
    for name, (_, body) in hm.items():
        for m in re.finditer(r"self\s*\.\s*mark_and_sweep_new\s*\(", body):
            mark_sites.append((name, [norm_arg(a) for a in split_top(call_args(body, m.end() - 1), ",") if a.strip()]))
        for m in re.finditer(r"self\s*\.\s*(value_collection|vector_collection|collection|verif_\w+)\s*\(", body):
            coll_calls.append((name, m.group(1), [norm_arg(a) for a in split_top(call_args(body, m.end() - 1), ",") if a.strip()]))
    mark_call = []
    for m in re.finditer(r"self\s*\.\s*mark\s*\(", hm.get("mark_and_sweep_new", (None, ""))[1]):
        mark_call.append([norm_arg(a) for a in split_top(call_args(hm["mark_and_sweep_new"][1], m.end() - 1), ",") if a.strip()])
    if len(mark_call) != 1:
        die("the call of Heap::mark in mark_and_sweep_new not found")
    if "mark_and_sweep_new" not in hparams or len(mark_sites) < 2:
        die("calls of Heap::mark_and_sweep_new not found")
    heap_fns = sorted({n for n, _ in mark_sites} | {n for n, _, _ in coll_calls} | {c for _, c, _ in coll_calls} |
                      {n for n in hparams if n.startswith("allocate") and "roots" in hparams[n]} | {"mark_and_sweep_new", "mark"})
    for n in heap_fns:
        if n not in hparams:
            die("Heap::%s not found" % n)
    # constants and shape of the growth / compaction policy (C19 heap_bounded is stated for these)
    def const_val(name):
        vals = set()
        for m in re.finditer(r"const\s+%s\s*:\s*usize\s*=\s*([\d\s*_]+);" % name, closed):
            v = 1
            for f in m.group(1).replace("_", "").split("*"):
                v *= int(f)
            vals.add(v)
        if len(vals) != 1:
            die("constant %s: %s" % (name, sorted(vals)))
        return vals.pop()
    c_chunk, c_reset = const_val("EXTEND_CHUNK"), const_val("RESET_LIMIT")
    inits = set(int(x) for x in re.findall(r"fn\s+new\s*\(\s*\)\s*->\s*Self\s*\{[^}]*?FreeList\s*\{.*?res\.grow_by\((\d+)\)", closed, re.S))
    if len(inits) != 1:
        die("FreeList::new: initial grow_by not found (%s)" % sorted(inits))
    policy = []
    flat = re.sub(r"\s+", "", closed)
    fl_impl = [find_block(closed[m.start():], r"impl<T:[^{]*FreeList<T>\s*\{", "impl FreeList") for m in re.finditer(r"impl<T:[^{]*FreeList<T>\s*\{", closed)]
    if not fl_impl:
        die("impl FreeList not found")
    def in_all(name, needle):
        bodies = [re.sub(r"\s+", "", methods(b)[name][1]) for b in fl_impl if name in methods(b)]
        return bool(bodies) and all(needle in b for b in bodies)
    if in_all("grow_by", "letcurrent=self.elements.len().max(amount);") and in_all("grow_by", "self.alloc_count+=current;") and in_all("grow_by", "self.grow_count+=1;"):
        policy.append("grow_by: adds max(len, amount) free slots, grow_count += 1")
    grows = [re.sub(r"\s+", "", methods(b)["grow"][1]) for b in fl_impl if "grow" in methods(b)]
    if grows and all("self.grow_by(Self::EXTEND_CHUNK)" in g or "letcurrent=self.elements.len().max(Self::EXTEND_CHUNK);" in g for g in grows):
        policy.append("grow = grow_by(EXTEND_CHUNK)")
    if in_all("compact", "self.elements.retain(|x|x.read().is_reachable());") and in_all("compact", "self.grow_count=0;") and in_all("compact", "self.extend_heap();"):
        policy.append("compact: keep marked slots, grow_count = 0, extend")
    if in_all("is_heap_full", "self.alloc_count==0"):
        policy.append("is_heap_full = (alloc_count == 0)")
    if in_all("percent_full", "letpercent=(count-self.alloc_countasf64)/count;"):
        policy.append("percent_full = (len - alloc_count) / len")
    for fn_name, lst in (("value_collection", "memory_free_list"), ("vector_collection", "vector_free_list"), ("allocate_vector_iter", "vector_free_list")):
        b = re.sub(r"\s+", "", hm[fn_name][1]) if fn_name in hm else ""
        if re.search(r"ifself\.%s\.grow_count>RESET_LIMIT\{self\.%s\.compact\(\);\}else\{self\.%s\.grow\(\);\}" % (lst, lst, lst), b):
            policy.append("%s: after the mark, compact if grow_count > RESET_LIMIT else grow" % fn_name)
        ths = set(re.findall(r"self\.%s\.percent_full\(\)>(0\.\d+)" % lst, b))
        if fn_name == "value_collection":
            ths_full = ths
        else:
            ths_full = ths - {"0.50", "0.30"}
        if ths_full == {"0.95"}:
            policy.append("%s: collects above 0.95" % fn_name)
    # stop-the-world bracket of the mark phase
    proto = []
    mb = re.sub(r"\s+", "", hm["mark"][1])
    order = [("stop_threads", "synchronizer.stop_threads()"), ("enumerate_stacks", "synchronizer.enumerate_stacks("),
             ("push_roots", "context.push_back("), ("marker", "MARKER.mark(context.queue)")]
    idx = [mb.find(n) for _, n in order]
    if all(i >= 0 for i in idx) and idx == sorted(idx):
        proto += [t for t, _ in order]
    msn = re.sub(r"\s+", "", hm["mark_and_sweep_new"][1])
    if 0 <= msn.find("self.mark(") < msn.find("synchronizer.resume_threads()"):
        proto.append("resume_threads")
    # `impl Drop for RootToken`: the body of every `fn drop` (both cfg variants), whitespace removed.  The model's
    # `RootTable.free` is unconditional; a drop that may skip the `free` (try_lock, early return, a condition) is a
    # different body and breaks the obligation root_token_drop_always_frees.
    root_drop = []
    for m in re.finditer(r"impl\s+Drop\s+for\s+RootToken\s*\{", closed):
        blk, _ = block_at(closed, closed.find("{", m.end() - 1))
        for dm in re.finditer(r"fn\s+drop\s*\(\s*&mut\s+self\s*\)\s*\{", blk):
            body, _ = block_at(blk, blk.find("{", dm.end() - 1))
            root_drop.append(re.sub(r"\s+", "", body).rstrip(";"))
    if not root_drop:
        die("impl Drop for RootToken not found")
    # `GlobalSlotRecycler::recycle`: the first walk starts from the globals that are NOT candidates
    rec_impl = find_block(closed, r"\nimpl\s+GlobalSlotRecycler\s*\{", "impl GlobalSlotRecycler")
    rm = methods(rec_impl)
    if "recycle" not in rm:
        die("GlobalSlotRecycler::recycle not found")
    rb = re.sub(r"\s+", "", rm["recycle"][1])
    recycler = []
    guarded = "for(index,root)inroots.iter().enumerate(){if!self.slots.contains(&index){self.push_back(root.clone());}}"
    loops = re.findall(r"for[^{};]*inroots\.iter\(\)[^{]*\{", rb)
    if guarded in rb and len(loops) == 1:
        recycler.append("root walk skips candidate slots")
    if "self.slots.insert(slot);" in rb and "shadowed_slots.drain(..)" in rb:
        recycler.append("candidates = drained shadowed slots")
    if re.search(r"loop\{let\(live,rest\).*?partition\(\|slot\|!self\.slots\.contains\(slot\)\);", rb):
        recycler.append("live candidates are walked until no further slot becomes live")
    sync_impl = find_block(vm, r"\nimpl\s+Synchronizer\s*\{", "impl Synchronizer")
    sm = methods(sync_impl)
    if "enumerate_stacks" not in sm:
        die("enumerate_stacks not found")
    roots_enum = []
    walk(sm["enumerate_stacks"][1], {}, roots_enum, ("context",))
    roots_enum = dedup(re.sub(r"^.*?\b(stack\[\]|stack_frames\[\].*|current_frame\..*|thread_local_storage\[\])$", r"thread.\1", t)
                       for t in roots_enum)
    lf = re.search(r"fn\s+live_functions\s*\(", vm)
    live_fn = []
    if lf:
        o = vm.find("{", lf.end())
        body = block_at(vm, o)[0]
        b = re.sub(r"\s+", "", body)
        if "x.function.as_ref()" in b:
            live_fn.append("frame.function")
        if re.search(r"a\.handler\{Some\(SteelVal::Closure\(c\)\)=>Some\(c\.as_ref\(\)\)", b):
            live_fn.append("frame.attachments.handler")
    # call sites of Heap::allocate*/collection: the root arguments
    sites, locks = [], []
    for rel in ("steel_vm/vm.rs", "steel_vm/primitives.rs", "steel_vm/vm/jit.rs"):
        src = strip(open(os.path.join(CORE, rel)).read())
        for m in re.finditer(r"\.(allocate|allocate_vector|allocate_vector_iter|collection)\s*\(", src):
            args = [re.sub(r"\s+", "", a) for a in split_top(call_args(src, m.end() - 1), ",") if a.strip()]
            args = [re.sub(r"\b(self|ctx|this)\.thread\b", "thread", a).replace("crate::steel_vm::vm::", "").replace("&mut", "&mut ") for a in args]
            if len(args) < 5:
                continue
            sites.append((rel + ":" + m.group(1), args))
            # the receiver of the call and how it was obtained (heap mutex taken inside a safepoint?)
            rm = re.search(r"(\w+)\s*$", src[:m.start()])
            recv = rm.group(1) if rm else "?"
            lets = list(re.finditer(r"let\s+(?:mut\s+)?%s\s*=\s*([^;]*);" % re.escape(recv), src[:m.start()]))
            how = re.sub(r"\s+", "", lets[-1].group(1)) if lets else "?"
            how = re.sub(r"^(self|ctx|this)\.thread\.", "thread.", how)
            locks.append((rel + ":" + m.group(1), how))
    if len(sites) < 4:
        die("call sites of Heap::allocate*/collection not found")

    with open(OUT, "w") as f:
        w = f.write
        w("-- GENERATED by translate/c04_edges.py from crates/steel-core/src/{values/closed.rs, rvals.rs, rvals/cycles.rs,\n")
        w("-- steel_vm/*.rs}; do not edit.\n")
        w("namespace SteelVerif.C04.Gen\n\n")
        w("/-- Variants of `enum SteelVal`. -/\ndef steelValVariants : List String := %s\n\n" % lean_list(variants))
        w("/-- Variants for which `SteelValPointer::from_value` yields a pointer (the others are dropped by the parallel marker). -/\n")
        w("def pointerVariants : List String := %s\n\n" % lean_list(pointer))
        w("/-- Leaf kinds of `MarkAndSweepContext::push_back` (never queued). -/\ndef leafA : List String := %s\n\n" % lean_list(leafA))
        w("/-- Leaf kinds of `MarkAndSweepContextRefQueue::push_back`. -/\ndef leafB : List String := %s\n\n" % lean_list(leafB))
        w("/-- variant ↦ method in `BreadthFirstSearchSteelValVisitor::visit`. -/\ndef dispatchA : List (String × String) := %s\n\n" % lean_table([(a, [b]) for a, b in dispA]).replace('["', '"').replace('"]', '"'))
        w("/-- pointer variant ↦ method in `BreadthFirstSearchSteelValReferenceVisitor2::visit`. -/\ndef dispatchB : List (String × String) := %s\n\n" % lean_table([(a, [b]) for a, b in dispB]).replace('["', '"').replace('"]', '"'))
        w("/-- What each `visit_*` of `MarkAndSweepContext` pushes / marks. -/\ndef edgesA : List (String × List String) := %s\n\n" % lean_table(sorted(edgesA.items())))
        w("/-- What each `visit_*` of `MarkAndSweepContextRefQueue` pushes / marks. -/\ndef edgesB : List (String × List String) := %s\n\n" % lean_table(sorted(edgesB.items())))
        w("/-- What `mark_heap_reference` / `mark_heap_vector` push after marking the slot. -/\n")
        w("def slotA : List (String × List String) := %s\n\n" % lean_table(sorted(slotA.items())))
        w("def slotB : List (String × List String) := %s\n\n" % lean_table(sorted(slotB.items())))
        w("/-- Roots pushed by `Heap::mark` (in order), and whether the queue is handed to the marker / cleared. -/\n")
        w("def rootsMark : List String := %s\n\n" % lean_list(roots_mark))
        w("/-- Roots pushed by `Synchronizer::enumerate_stacks` for every other thread. -/\n")
        w("def rootsEnumerate : List String := %s\n\n" % lean_list(roots_enum))
        w("/-- What `live_functions` yields per frame. -/\ndef liveFunctions : List String := %s\n\n" % lean_list(live_fn))
        w("/-- Root arguments at every call of `Heap::allocate* / collection`. -/\n")
        w("def allocSites : List (String × List String) := %s\n\n" % lean_table(sites))
        w("/-- Parameters of the collection routines of `impl Heap`. -/\n")
        w("def heapFns : List (String × List String) := %s\n\n" % lean_table([(n, hparams[n]) for n in heap_fns]))
        w("/-- Every call of `mark_and_sweep_new`: enclosing function ↦ arguments. -/\n")
        w("def markSites : List (String × List String) := %s\n\n" % lean_table(mark_sites))
        w("/-- The arguments `mark_and_sweep_new` hands to `Heap::mark`. -/\ndef markCall : List String := %s\n\n" % lean_list(mark_call[0]))
        w("/-- Functions of the verification hook (`verif_*`, cfg steel_verif) among them. -/\n")
        w("def hookFns : List String := %s\n\n" % lean_list([n for n in heap_fns if n.startswith("verif_")]))
        w("/-- Calls among the collection routines: caller ↦ callee :: arguments. -/\n")
        w("def collCalls : List (String × List String) := %s\n\n" % lean_table([(a, [b] + c) for a, b, c in coll_calls]))
        w("/-- How the receiver of every `Heap::allocate* / collection` call was obtained (heap mutex, inside a safepoint). -/\n")
        w("def allocLocks : List (String × String) := %s\n\n" % lean_table([(a, [b]) for a, b in locks]).replace('["', '"').replace('"]', '"'))
        w("/-- Order of events in `Heap::mark` / `mark_and_sweep_new`. -/\ndef markProtocol : List String := %s\n\n" % lean_list(proto))
        w("/-- Constants of the growth / compaction policy (`EXTEND_CHUNK` of both `impl FreeList`, `RESET_LIMIT`, the\n`grow_by` of `FreeList::new`) and the recognised statements of the policy. -/\n")
        w("def srcExtendChunk : Nat := %d\ndef srcResetLimit : Nat := %d\ndef srcInitialSlots : Nat := %d\n" % (c_chunk, c_reset, inits.pop()))
        w("def srcPolicy : List String := %s\n\n" % lean_list(policy))
        w("/-- Bodies of `fn drop` of `impl Drop for RootToken` (every cfg variant). -/\n")
        w("def rootTokenDrop : List String := %s\n\n" % lean_list(root_drop))
        w("/-- Recognised statements of `GlobalSlotRecycler::recycle`. -/\n")
        w("def recyclerFacts : List String := %s\n\n" % lean_list(recycler))
        w("end SteelVerif.C04.Gen\n")
    print("variants=%d pointer=%d leafA=%d leafB=%d visitA=%d visitB=%d rootsMark=%s rootsEnumerate=%s live=%s sites=%d" % (
        len(variants), len(pointer), len(leafA), len(leafB), len(edgesA), len(edgesB), roots_mark, roots_enum, live_fn, len(sites)))
    print(" constants: EXTEND_CHUNK=%d RESET_LIMIT=%d policy=%s protocol=%s locks=%s" % (c_chunk, c_reset, policy, proto, sorted(set(h for _, h in locks))))
    print(" RootToken::drop = %s ; recycler = %s" % (root_drop, recycler))
    print(" markSites = %s" % mark_sites)
    print(" collCalls = %s" % coll_calls)
    for k in ("visit_continuation", "visit_closure", "visit_custom_type"):
        print(" A.%s = %s" % (k, edgesA.get(k)))
        print(" B.%s = %s" % (k, edgesB.get(k)))


main()
