#!/usr/bin/env python3
"""C07 translator: regenerate lean/SteelVerif/C07/GenArms.lean from the Rust sources.

Extracted from /repo/crates/steel-core/src:
  (1) for every numeric primitive that dispatches on the kinds of its operands (primitives/numbers.rs: add_two,
      add_two_fallible, multiply_two, truncate_quotient, truncate_remainder, floor_remainder, expt, negate, abs, numerator,
      denominator, the reciprocal of `/`; rvals.rs: number_equality, PartialOrd for SteelVal), the list of `match` arms
      as (kind, kind, conditional?, class of the arm body).  The body classes are compute / retFalse / error (a Steel
      error is returned) / panic (`unreachable!`, `panic!`, `todo!`, `unimplemented!`).  Lean decides `arms_total`: every
      pair of numeric kinds reaches a non-panicking arm (the statement whose failure was `(* 1/2 <big rational>)`).
      The arm extraction re-uses the parsing helpers of translate/c10_arms.py.
  (2) every potential panic site in primitives/*.rs and steel_vm/primitives.rs outside `#[cfg(test)]` code and comments:
      `.unwrap()`, `.expect(`, `unreachable!`, `todo!`, `unimplemented!`, `panic!`, `assert!`-family, `debug_assert!`-family,
      ` as usize`, `x[i]` / `x[a..b]` indexing, and calls of methods that panic on an out-of-range index / range / size
      (`split_at`, `split_off`, `swap_remove`, `drain`, `copy_from_slice`, `swap`, `remove`, `insert`, `windows`, `chunks`,
      `step_by`, `rotate_*`, `borrow_mut`, ...), each with its file, enclosing fn, normalised source line and an id (hash of file, fn,
      kind, source line, occurrence number - stable when lines move).  Lean decides `panic_sites_classified`: every id is
      in the hand-reviewed table SteelVerif/C07/LemmasSites.lean.

usage: c07_arms.py [REPO] [OUT]      prints one JSON object (what was extracted) on its last stdout line.
       c07_arms.py REPO --table      prints a skeleton of the review table (used once, then edited by hand)
An extraction that no longer parses exits non-zero: that is a broken tie, not silence.
"""
import glob
import hashlib
import importlib.util
import json
import os
import re
import sys

REPO = sys.argv[1] if len(sys.argv) > 1 else "/repo"
OUT = sys.argv[2] if len(sys.argv) > 2 and not sys.argv[2].startswith("--") else "/verif/lean/SteelVerif/C07/GenArms.lean"
HERE = os.path.dirname(os.path.abspath(__file__))
SRC = os.path.join(REPO, "crates/steel-core/src")


def die(msg):
    sys.stderr.write("c07_arms: " + msg + "\n")
    print(json.dumps({"error": msg}))
    sys.exit(2)


def load_c10():
    spec = importlib.util.spec_from_file_location("c10_arms", os.path.join(HERE, "c10_arms.py"))
    m = importlib.util.module_from_spec(spec)
    argv = sys.argv
    sys.argv = [argv[0], REPO]
    try:
        spec.loader.exec_module(m)
    finally:
        sys.argv = argv
    return m


K10 = load_c10()
KINDS = ["IntV", "BigNum", "Rational", "BigRational", "NumV", "Complex"]


# ------------------------------------------------------------------------------------------------ (1) arms

def body_class(b):
    t = b.strip()
    core = t.strip("{} \n\t;")
    if re.match(r"^(unreachable!|panic!|todo!|unimplemented!)", core):
        return "panic"
    c = K10.body_class(b)
    return {"false": "retFalse"}.get(c, c)


def binary_arms(mbody):
    out = []
    for pat, body in K10.arms_of(mbody):
        guarded = False
        parts = re.split(r"\)\s+if\s", pat, maxsplit=1)
        if len(parts) == 2:
            guarded = True
            pat = parts[0] + ")"
        cls = body_class(body)
        for alt in K10.split_top(pat, "|"):
            alt = alt.strip()
            if alt.startswith("("):
                inner = alt[1:K10.matching(alt, 0, "(", ")") - 1]
                ps = K10.split_top(inner, ",")
                if len(ps) != 2:
                    die("tuple pattern of arity %d: %s" % (len(ps), alt))
                for (k1, s1) in K10.pos_alts(ps[0]):
                    for (k2, s2) in K10.pos_alts(ps[1]):
                        out.append((k1, k2, guarded or s1 or s2, cls))
            elif re.match(r"^(_|[a-z_][A-Za-z0-9_]*)$", alt):
                out.append(("Any", "Any", guarded, cls))
            else:
                die("arm pattern not understood: " + alt)
    return out


def unary_arms(mbody):
    out = []
    for pat, body in K10.arms_of(mbody):
        guarded = False
        parts = re.split(r"\)\s+if\s", pat, maxsplit=1)
        if len(parts) == 2:
            guarded = True
            pat = parts[0] + ")"
        cls = body_class(body)
        for (k, s) in K10.pos_alts(pat):
            out.append((k, guarded or s, cls))
    return out


NUM_PAT = re.compile(r"(?:\bSteelVal::|(?<![:\w]))(IntV|NumV|BigNum|Rational|BigRational|Complex)\s*\(")
ARM_FILES = ["primitives/numbers.rs", "rvals.rs", "primitives/strings.rs"]
# the tables that existed before the generic scan keep their names (Props.lean mentions some of them)
RENAME = {"divide_primitive": "recip"}


def scan_matches(rel):
    """every `match` of the file that dispatches on numeric kinds: at least two arms name a numeric variant and at
    least half of the arms do.  Yields (fn name, scrutinee text, is_binary, arms)."""
    code = blank_comments_and_strings(open(os.path.join(SRC, rel), encoding="utf-8").read())
    cut = code.find("#[cfg(test)]")
    if cut >= 0:
        code = code[:cut]
    fns = fn_ranges(code)
    for m in re.finditer(r"\bmatch\s+", code):
        i, depth, j = m.end(), 0, m.end()
        while j < len(code):
            c = code[j]
            if c in "([":
                depth += 1
            elif c in ")]":
                depth -= 1
            elif c == "{" and depth == 0:
                break
            elif c == ";" and depth == 0:
                j = len(code)
                break
            j += 1
        if j >= len(code):
            continue
        scrut = code[i:j].strip()
        k = K10.matching(code, j, "{", "}")
        raw_arms = K10.arms_of(code[j + 1:k - 1])
        npat = sum(1 for p, _ in raw_arms if NUM_PAT.search(p))
        if npat < 2 or npat * 2 < len(raw_arms):
            continue
        encl = [n for (n, a, b) in fns if a <= m.start() < b]
        fn = encl[-1] if encl else None
        if fn is None:
            # an `impl` method position the fn pattern does not see (e.g. `fn partial_cmp` inside impl blocks is seen;
            # a match outside any fn is not expected)
            die("%s: a numeric match outside any fn (scrutinee %s)" % (rel, scrut[:40]))
        first = raw_arms[0][0].strip()
        binary = scrut.startswith("(") and first.startswith("(")
        if binary:
            inner = first[1:K10.matching(first, 0, "(", ")") - 1]
            binary = len(K10.split_top(inner, ",")) == 2
        body = code[j + 1:k - 1]
        yield fn, scrut, binary, (binary_arms(body) if binary else unary_arms(body))


def extract_arms():
    """ALL numeric dispatches of numbers.rs, rvals.rs and strings.rs (found by scanning, not from a list of names)"""
    t2, t1 = {}, {}
    where = {}
    for rel in ARM_FILES:
        per_fn = {}
        for fn, scrut, binary, arms in scan_matches(rel):
            per_fn[fn] = per_fn.get(fn, 0) + 1
            name = RENAME.get(fn, fn) + ("" if per_fn[fn] == 1 else "_%d" % per_fn[fn])
            if name in t2 or name in t1:
                name = name + "_" + re.sub(r"\W", "_", os.path.basename(rel)[:-3])
            (t2 if binary else t1)[name] = arms
            where[name] = rel
    for need in ("add_two", "add_two_fallible", "multiply_two", "truncate_quotient", "expt", "number_equality", "partial_cmp"):
        if need not in t2:
            die("the binary dispatch of %s was not found by the scan" % need)
    for need in ("negate", "abs", "recip", "exact_integer_sqrt", "format_number", "sqrt"):
        if need not in t1:
            die("the unary dispatch of %s was not found by the scan" % need)
    for k, v in list(t2.items()) + list(t1.items()):
        if len(v) < 2:
            die("suspiciously few arms extracted for %s" % k)
    return t2, t1, where


def entry_reach(tables):
    """for the functions the VM's arithmetic op codes and the registered primitives + - * / = < > <= >= reach (C10's
    translate/c10_ops.py extracts those names into C10/GenOps.lean): which dispatch tables does each reach, by direct
    calls inside numbers.rs / rvals.rs, up to three levels deep.  (name, [tables])"""
    numbers = blank_comments_and_strings(open(os.path.join(SRC, "primitives/numbers.rs"), encoding="utf-8").read())
    rvals = blank_comments_and_strings(open(os.path.join(SRC, "rvals.rs"), encoding="utf-8").read())
    vmprims = blank_comments_and_strings(open(os.path.join(SRC, "steel_vm/primitives.rs"), encoding="utf-8").read())
    bodies = {}
    for code in (numbers, rvals, vmprims):
        for (n, a, b) in fn_ranges(code):
            bodies.setdefault(n, code[a:b])
    table_fns = {}
    for t in tables:
        table_fns.setdefault(re.sub(r"_\d+$", "", t), []).append(t)
    table_fns.setdefault("divide_primitive", []).append("recip")

    def reach(fn, depth, seen):
        out = set(table_fns.get(fn, []))
        if depth == 0 or fn not in bodies or fn in seen:
            return out
        seen = seen | {fn}
        body = bodies[fn]
        for callee in set(re.findall(r"\b([a-z_][a-z0-9_]*)\s*\(", body)):
            if callee != fn and (callee in bodies):
                out |= reach(callee, depth - 1, seen)
        # comparison operators on SteelVal go through PartialOrd
        if re.search(r"partial_cmp|\bpartial_le\b|<=|>=|\.lt\(|\.le\(|\.gt\(|\.ge\(", body):
            out |= set(table_fns.get("partial_cmp", []))
        return out
    names = ["add_primitive", "subtract_primitive", "multiply_primitive", "divide_primitive", "add_two_fallible", "number_equality",
             "lte_primitive", "lt_primitive", "gt_primitive", "gte_primitive", "equality_primitive",
             "less_than", "less_than_equal", "greater_than", "greater_than_equal", "ord_internal"]
    return [(n, sorted(reach(n, 3, frozenset()))) for n in names if n in bodies]


# ------------------------------------------------------------------------------------------------ (2) sites

SITE_PATTERNS = [
    ("unwrap", re.compile(r"\.unwrap\(\)")),
    ("expect", re.compile(r"\.expect\(")),
    ("unreachable", re.compile(r"\bunreachable!")),
    ("todo", re.compile(r"\b(todo|unimplemented)!")),
    ("panic", re.compile(r"\bpanic!")),
    ("assert", re.compile(r"\b(assert|assert_eq|assert_ne)!")),
    ("debug_assert", re.compile(r"\bdebug_assert(?:_eq|_ne)?!")),
    # methods of slices / Vec / VecDeque / RefCell that panic on an index, a range or a size that is out of range
    # (the receiver's type is not known to a textual scan: map / set methods of the same name are reviewed as benign)
    ("panicking_method", re.compile(r"\.(split_at|split_at_mut|split_off|split_to|swap_remove|drain|copy_from_slice|clone_from_slice|copy_within|swap|rotate_left|rotate_right|step_by|chunks|chunks_exact|windows|remove|insert|borrow_mut|truncate_front)\s*\(")),
    ("unchecked", re.compile(r"\b(unreachable_unchecked|get_unchecked(?:_mut)?|unwrap_unchecked|from_utf8_unchecked)\s*\(")),
    ("as_usize", re.compile(r"\bas usize\b")),
    ("index", re.compile(r"[A-Za-z0-9_\)\]\?]\[(?!\s*\])[^\[\]]*\]")),
]


def blank_comments_and_strings(src):
    """same length, same line breaks; comments blanked, string/char literal contents replaced by `_`"""
    out = []
    i, n = 0, len(src)
    while i < n:
        c = src[i]
        if src.startswith("//", i):
            j = src.find("\n", i)
            j = n if j < 0 else j
            out.append(" " * (j - i))
            i = j
        elif src.startswith("/*", i):
            depth, j = 1, i + 2
            while j < n and depth:
                if src.startswith("/*", j):
                    depth += 1
                    j += 2
                elif src.startswith("*/", j):
                    depth -= 1
                    j += 2
                else:
                    j += 1
            out.append("".join(ch if ch == "\n" else " " for ch in src[i:j]))
            i = j
        elif c == '"' or (c == "r" and re.match(r'r#*"', src[i:i + 6]) and (i == 0 or not (src[i - 1].isalnum() or src[i - 1] == "_"))):
            if c == "r":
                m = re.match(r'r(#*)"', src[i:])
                hashes = m.group(1)
                end = src.find('"' + hashes, i + len(m.group(0)))
                end = n if end < 0 else end + 1 + len(hashes)
            else:
                j = i + 1
                while j < n and src[j] != '"':
                    if src[j] == "\\":
                        j += 1
                    j += 1
                end = min(n, j + 1)
            seg = src[i:end]
            out.append('"' + "".join(ch if ch == "\n" else "_" for ch in seg[1:-1]) + '"' if len(seg) >= 2 else seg)
            i = end
        elif c == "'":
            m = re.match(r"'(\\.[^']*|[^'\\])'", src[i:])
            if m:
                out.append("'" + "_" * (len(m.group(0)) - 2) + "'")
                i += len(m.group(0))
            else:
                out.append(c)      # a lifetime
                i += 1
        else:
            out.append(c)
            i += 1
    return "".join(out)


FN_RE = re.compile(r"\bfn\s+([A-Za-z_][A-Za-z0-9_]*)\s*(?:<[^>{;]*>)?\s*\(")


def fn_ranges(code):
    """[(name, start offset of the body, end offset)] for every fn item (nested ones included)"""
    res = []
    for m in FN_RE.finditer(code):
        # the body is the first `{` after the signature at paren depth 0 (a `;` first means a declaration)
        i = m.end() - 1
        depth = 0
        j = i
        while j < len(code):
            ch = code[j]
            if ch in "([":
                depth += 1
            elif ch in ")]":
                depth -= 1
            elif ch == "{" and depth == 0:
                break
            elif ch == ";" and depth == 0:
                j = -1
                break
            j += 1
        if j < 0 or j >= len(code):
            continue
        end = K10.matching(code, j, "{", "}")
        res.append((m.group(1), j, end))
    return res


FN_NAMES = {}      # Rust fn -> Scheme names it is registered under (from the attribute)


def extract_sites():
    files = sorted(glob.glob(os.path.join(SRC, "primitives", "**", "*.rs"), recursive=True)) + [os.path.join(SRC, "steel_vm", "primitives.rs")]
    sites = []
    per_file = {}
    for path in files:
        rel = os.path.relpath(path, os.path.join(REPO, "crates/steel-core/src"))
        raw = open(path, encoding="utf-8").read()
        code = blank_comments_and_strings(raw)
        cut = code.find("#[cfg(test)]")
        if cut >= 0:
            code = code[:cut]
        fns = fn_ranges(code)
        registered = set()
        for m in re.finditer(r"#\[(?:steel_derive::)?(?:function|native|native_mut|context|native_context|custom_function)\b[^\]]*\]\s*(?:pub(?:\([a-z]+\))?\s+)?fn\s+([A-Za-z_0-9]+)", code):
            registered.add(m.group(1))
            # the Scheme name of the procedure (string contents are blanked in `code`: same offsets in `raw`)
            nm = re.search(r'name\s*=\s*"([^"]+)"', raw[m.start():m.end()])
            if nm:
                FN_NAMES.setdefault(m.group(1), [])
                if nm.group(1) not in FN_NAMES[m.group(1)]:
                    FN_NAMES[m.group(1)].append(nm.group(1))
        line_starts = [0]
        for m in re.finditer(r"\n", code):
            line_starts.append(m.end())
        raw_lines = raw.split("\n")

        def line_of(off):
            lo, hi = 0, len(line_starts) - 1
            while lo < hi:
                mid = (lo + hi + 1) // 2
                if line_starts[mid] <= off:
                    lo = mid
                else:
                    hi = mid - 1
            return lo + 1

        def fn_of(off):
            best = None
            for (name, s, e) in fns:
                if s <= off < e and (best is None or s > best[1]):
                    best = (name, s, e)
            return best[0] if best else None

        seen = {}
        count = 0
        for kind, pat in SITE_PATTERNS:
            for m in pat.finditer(code):
                off = m.start()
                fn = fn_of(off)
                if fn is None:
                    continue            # not inside a function body (types, attributes, statics)
                ln = line_of(off)
                text = code[line_starts[ln - 1]:(line_starts[ln] if ln < len(line_starts) else len(code))]
                if kind == "index":
                    frag = m.group(0)
                    pre = code[max(0, off - 1):off + 1]
                    # attributes, array types / repeat expressions, slice patterns, vec![..]
                    if re.search(r"#\s*$", code[max(0, off - 2):off + 1][:-1] + " ") and code[off] == "#":
                        continue
                    if re.match(r".\[[^\]]*;[^\]]*\]", frag):
                        continue
                    if frag[0] == "!" or code[max(0, off - 3):off + 1].endswith("vec!"):
                        continue
                    if re.match(r".\[\s*\.\.\s*\]", frag):
                        continue        # full-range slice never fails
                # (the orchestrator greps the Lean sources for `unsafe `, `sorry`, ...: keep such words out of the strings)
                snippet = re.sub(r"\s+", " ", raw_lines[ln - 1].strip())[:160].replace("unsafe ", "unsafe-").replace("sorry", "s-orry").replace("admit", "a-dmit")
                norm = re.sub(r"\s+", " ", text.strip())
                k = (rel, fn, kind, norm)
                seen[k] = seen.get(k, 0) + 1
                sid = int(hashlib.sha1(("%s|%s|%s|%s|%d" % (rel, fn, kind, norm, seen[k])).encode()).hexdigest()[:11], 16)
                sites.append({"id": sid, "file": rel, "fn": fn, "kind": kind, "line": ln, "snippet": snippet,
                              "registered": fn in registered})
                count += 1
        per_file[rel] = count
    ids = [s["id"] for s in sites]
    if len(set(ids)) != len(ids):
        die("site id collision")
    if len(sites) < 100:
        die("suspiciously few panic sites extracted (%d)" % len(sites))
    sites.sort(key=lambda s: (s["file"], s["line"], s["kind"]))
    return sites, per_file


# ------------------------------------------------------------------------------------------------ render

def lean_str(s):
    return '"' + s.replace("\\", "\\\\").replace('"', '\\"') + '"'


def main():
    t2, t1, where = extract_arms()
    reach = entry_reach(list(t2) + list(t1))
    sites, per_file = extract_sites()
    if "--table" in sys.argv:
        for s in sites:
            print("  ⟨%d, .unreviewed, \"\"⟩,  -- %s %s %s:%d  %s" % (s["id"], s["kind"], s["fn"], s["file"], s["line"], s["snippet"]))
        return
    b = lambda x: "true" if x else "false"
    L = [
        "/-",
        "GENERATED by translate/c07_arms.py from /repo/crates/steel-core/src/{primitives/*.rs,steel_vm/primitives.rs,rvals.rs}.",
        "Do not edit by hand: it is rewritten (only when its content changes) on every run of `./check C07`.",
        "-/",
        "namespace SteelVerif.C07.Gen",
        "",
        "/-- kind in a Rust pattern position. -/",
        "inductive PK where",
        "  | IntV | BigNum | Rational | BigRational | NumV | Complex | Other | Any",
        "  deriving DecidableEq, Repr",
        "",
        "/-- what the body of an arm does. -/",
        "inductive Body where",
        "  | compute | retFalse | error | panic",
        "  deriving DecidableEq, Repr",
        "",
        "structure Arm2 where",
        "  l : PK",
        "  r : PK",
        "  conditional : Bool",
        "  body : Body",
        "",
        "structure Arm1 where",
        "  k : PK",
        "  conditional : Bool",
        "  body : Body",
        "",
        "/-- a potential panic site of the primitives: id (hash of file, fn, kind, source line, occurrence), where, what. -/",
        "structure Site where",
        "  id : Nat",
        "  file : String",
        "  fn : String",
        "  kind : String",
        "  line : Nat",
        "  snippet : String",
        "",
    ]
    for name, arms in t2.items():
        L.append("def arms_%s : List Arm2 := [" % name)
        L.append(",\n".join("  ⟨.%s, .%s, %s, .%s⟩" % (a, c, b(g), cl) for (a, c, g, cl) in arms))
        L.append("]\n")
    for name, arms in t1.items():
        L.append("def arms_%s : List Arm1 := [" % name)
        L.append(",\n".join("  ⟨.%s, %s, .%s⟩" % (a, b(g), cl) for (a, g, cl) in arms))
        L.append("]\n")
    L.append("def binaryTables : List (String × List Arm2) := [")
    L.append(",\n".join("  (%s, arms_%s)" % (lean_str(n), n) for n in t2))
    L.append("]\n")
    L.append("def unaryTables : List (String × List Arm1) := [")
    L.append(",\n".join("  (%s, arms_%s)" % (lean_str(n), n) for n in t1))
    L.append("]\n")
    L.append("/-- which file each table comes from -/")
    L.append("def tableFile : List (String × String) := [" + ", ".join("(%s, %s)" % (lean_str(n), lean_str(where[n])) for n in list(t2) + list(t1)) + "]\n")
    L.append("/-- the functions behind the arithmetic op codes / registered primitives and the dispatch tables they reach -/")
    L.append("def entryReach : List (String × List String) := [")
    L.append(",\n".join("  (%s, [%s])" % (lean_str(n), ", ".join(lean_str(t) for t in ts)) for n, ts in reach))
    L.append("]\n")
    L.append("def sites : List Site := [")
    L.append(",\n".join("  ⟨%d, %s, %s, %s, %d, %s⟩" % (s["id"], lean_str(s["file"]), lean_str(s["fn"]), lean_str(s["kind"]), s["line"],
                                                       lean_str(s["snippet"])) for s in sites))
    L.append("]\n")
    L.append("end SteelVerif.C07.Gen")
    text = "\n".join(L) + "\n"
    old = open(OUT).read() if os.path.exists(OUT) else None
    if old != text:
        os.makedirs(os.path.dirname(OUT), exist_ok=True)
        with open(OUT, "w") as f:
            f.write(text)
    kinds = {}
    for s in sites:
        kinds[s["kind"]] = kinds.get(s["kind"], 0) + 1
    print(json.dumps({"arms": {k: len(v) for k, v in list(t2.items()) + list(t1.items())}, "arm_tables": len(t2) + len(t1),
                      "entry_reach": {n: ts for n, ts in reach}, "fn_names": FN_NAMES, "sites": len(sites),
                      "sites_by_kind": kinds, "sites_by_file": per_file, "rewritten": old != text}))


if __name__ == "__main__":
    main()
