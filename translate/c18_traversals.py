#!/usr/bin/env python3
"""C18 translator: how does every operation of the property walk every kind of value?

Scanned from /repo on every run (comments removed first, so commented-out code does not count):
  hash       `impl Hash for SteelVal` (rvals.rs): per match arm — hashes an address / an id / nothing (atomic), or calls
             `.hash(state)` on the payload; no explicit stack in the impl => native recursion for payloads that hold values
  print      `CycleDetector::format_with_cycles` (rvals/cycles.rs): the depth guard (`self.depth > N` => `...`), per arm —
             calls itself (recursion below the limit N) or formats the payload through `write!` (= `Display for SteelVal`
             again: fresh counter, fresh cycle table => unbounded) or prints a constant
  equal      `RecursiveEqualityHandler::visit`: a `loop` over two queues; per same-kind arm — `should_visit` or not, and
             whether it looks keys up in a hash map / set (`.get(key)` / `.contains(key)`: a nested `==`)
  mark       `impl BreadthFirstSearchSteelValVisitor for MarkAndSweepContext` and the `…RefQueue` copy (values/closed.rs):
             per `visit_*` — pushes (worklist), nothing, or calls `visit` again
  collect    `impl BreadthFirstSearchSteelValVisitor for CycleCollector`: same; `found_mutable` handling
  drop       `impl … for IterativeDropHandler` (own `visit` loop) + which payload types have an `impl Drop` that starts it
             (`drop_impls`, `list_drop_handler`); every other payload that holds values is released by recursive drop glue
  send       `channel_send` / `spawn_native_thread`: the value is moved (`as_rooted`), nothing is walked
  serialize  `into_serializable_value`: calls itself
and written to lean/SteelVerif/C18/GenTraversals.lean as `table : List (String × String × T)` (operation, SteelVal variant,
traversal) plus the flags of the model configuration.  The hand table it is compared with lives in Props.lean.
"""
import os
import re
import sys

REPO = sys.argv[1] if len(sys.argv) > 1 else "/repo"
OUT = sys.argv[2] if len(sys.argv) > 2 else "/verif/lean/SteelVerif/C18/GenTraversals.lean"
CORE = os.path.join(REPO, "crates/steel-core/src")


def die(msg):
    sys.exit("c18_traversals: " + msg)


def strip(src):
    """Remove comments; string literals keep only their `{…}` format holes."""
    out = []
    i, n = 0, len(src)
    while i < n:
        c = src[i]
        if src.startswith("//", i):
            j = src.find("\n", i)
            i = n if j < 0 else j
        elif src.startswith("/*", i):
            depth, i = 1, i + 2
            while i < n and depth:
                if src.startswith("/*", i):
                    depth += 1; i += 2
                elif src.startswith("*/", i):
                    depth -= 1; i += 2
                else:
                    i += 1
        elif c == '"':
            j = i + 1
            while j < n and src[j] != '"':
                j += 2 if src[j] == "\\" else 1
            lit = src[i + 1:j]
            holes = len(re.findall(r"\{[^{}]*\}", lit.replace("{{", "").replace("}}", "")))
            out.append('"%s"' % ("?" * holes))
            i = j + 1
        elif c == "'" and re.match(r"'(\\.|[^\\'])'", src[i:i + 4]):
            m = re.match(r"'(\\.|[^\\'])'", src[i:i + 4])
            out.append("' '")
            i += m.end()
        else:
            out.append(c)
            i += 1
    return re.sub(r"#!?\[[^\[\]]*(\[[^\[\]]*\][^\[\]]*)*\]", "", "".join(out))


def block_at(src, open_idx):
    assert src[open_idx] == "{", src[open_idx:open_idx + 40]
    depth = 0
    for j in range(open_idx, len(src)):
        if src[j] == "{":
            depth += 1
        elif src[j] == "}":
            depth -= 1
            if depth == 0:
                return src[open_idx + 1:j], j + 1
    die("unbalanced braces")


def find_block(src, header_re, what, start=0):
    m = re.compile(header_re).search(src, start)
    if not m:
        die("not found: " + what)
    o = src.find("{", m.end() - 1)
    body, end = block_at(src, o)
    return body


def fn_body(src, name, what=None):
    return find_block(src, r"\bfn\s+%s\s*(<[^>{]*>)?\s*\(" % re.escape(name), what or ("fn " + name))


def methods(impl_body):
    res = {}
    for m in re.finditer(r"\bfn\s+(\w+)\s*(?:<[^>{]*>)?\s*\(", impl_body):
        # skip to the end of the parameter list
        depth, j = 0, m.end() - 1
        while True:
            if impl_body[j] == "(":
                depth += 1
            elif impl_body[j] == ")":
                depth -= 1
                if depth == 0:
                    break
            j += 1
        k = re.match(r"\s*(->\s*[^{;]+)?\s*([{;])", impl_body[j + 1:])
        if not k or k.group(2) == ";":
            continue
        o = j + 1 + k.end() - 1
        res.setdefault(m.group(1), block_at(impl_body, o)[0])
    return res


def match_arms(body, scrutinee_re):
    """Arms of the first `match <scrutinee> {` in body: list of (pattern, expression)."""
    m = re.search(r"\bmatch\s+" + scrutinee_re + r"\s*\{", body)
    if not m:
        die("no match on " + scrutinee_re)
    inner, _ = block_at(body, m.end() - 1)
    arms, i, n = [], 0, len(inner)
    while i < n:
        # pattern up to `=>` at depth 0
        depth, j = 0, i
        while j < n:
            ch = inner[j]
            if ch in "([{":
                depth += 1
            elif ch in ")]}":
                depth -= 1
            elif depth == 0 and inner.startswith("=>", j):
                break
            j += 1
        if j >= n:
            break
        pat = inner[i:j].strip()
        j += 2
        while j < n and inner[j].isspace():
            j += 1
        if j < n and inner[j] == "{":
            expr, j = block_at(inner, j)
            expr = "{" + expr + "}"
            while j < n and (inner[j].isspace() or inner[j] == ","):
                j += 1
        else:
            depth, k = 0, j
            while k < n:
                ch = inner[k]
                if ch in "([{":
                    depth += 1
                elif ch in ")]}":
                    depth -= 1
                elif ch == "," and depth == 0:
                    break
                k += 1
            expr = inner[j:k].strip()
            j = k + 1
        arms.append((pat, expr))
        i = j
    return arms


def variants_of(pat):
    """SteelVal variants named by a pattern (alternatives `A(_) | B(_)`), guards dropped."""
    pat = re.split(r"\bif\b", pat)[0]
    return [re.sub(r"^(SteelVal|Self)::", "", v) for v in re.findall(r"(?:^|\|)\s*((?:SteelVal::|Self::)?\w+)", pat)]


def binder(pat):
    m = re.search(r"\(\s*(?:ref\s+)?(?:mut\s+)?(\w+)\s*\)", pat)
    return m.group(1) if m else None


# ------------------------------------------------------------------------------------------------------------------
rvals = strip(open(os.path.join(CORE, "rvals.rs")).read())
cycles = strip(open(os.path.join(CORE, "rvals/cycles.rs")).read())
closed = strip(open(os.path.join(CORE, "values/closed.rs")).read())
lists = strip(open(os.path.join(CORE, "values/lists.rs")).read())
threads = strip(open(os.path.join(CORE, "steel_vm/vm/threads.rs")).read())
structs = strip(open(os.path.join(CORE, "values/structs.rs")).read())
functions = strip(open(os.path.join(CORE, "values/functions.rs")).read())

# variants of SteelVal with their payload type
enum_body = find_block(rvals, r"\bpub\s+enum\s+SteelVal\s*\{", "enum SteelVal")
VARIANTS = []
PAYLOAD = {}
for m in re.finditer(r"^\s*(\w+)\s*(?:\((.*)\))?\s*,\s*$", enum_body, re.M):
    VARIANTS.append(m.group(1))
    PAYLOAD[m.group(1)] = (m.group(2) or "").strip()
if len(VARIANTS) < 30:
    die("enum SteelVal: only %d variants parsed" % len(VARIANTS))

# payload types that can hold other values (by the type text of the variant: the tie is the enum itself)
HOLDS = {}
for v in VARIANTS:
    t = PAYLOAD[v]
    holds = bool(re.search(r"SteelVal|SteelVector|SteelHashMap|SteelHashSet|UserDefinedStruct|ByteCodeLambda|Transducer|Reducer\b|"
                           r"LazyStream|Continuation|Pair\b|OpaqueIterator|Syntax\b|CustomType|FutureResult|OpaqueReference", t))
    HOLDS[v] = holds

table = []   # (op, variant, T, note)


def T(op, v, t, note=""):
    table.append((op, v, t, note))


# ---- hash ----------------------------------------------------------------------------------------------------------
hash_impl = find_block(rvals, r"\bimpl\s+Hash\s+for\s+SteelVal\s*\{", "impl Hash for SteelVal")
hash_fn = fn_body(hash_impl, "hash")
hash_has_stack = bool(re.search(r"\bwhile\s+let\s+Some|\.pop\(\)|VecDeque|Vec::new", hash_fn))
seen = set()
for pat, expr in match_arms(hash_fn, r"self"):
    for v in variants_of(pat):
        if v not in VARIANTS or v in seen:
            continue
        seen.add(v)
        if "as_ptr" in expr or expr.strip() in ("{}", "()"):
            T("hash", v, "atomic", "address or nothing")
        elif ".hash(state)" in expr:
            if not HOLDS[v]:
                T("hash", v, "atomic", "leaf payload")
            elif v == "Closure":
                # delegates to `Hash for ByteCodeLambda`: id and arity only?
                bl = find_block(functions, r"\bimpl\s+(core::hash::)?Hash\s+for\s+ByteCodeLambda\s*\{", "Hash for ByteCodeLambda")
                T("hash", v, "atomic" if "captures" not in bl else ("iterative" if hash_has_stack else "recUnbounded"), "id")
            else:
                T("hash", v, "iterative" if hash_has_stack else "recUnbounded", "hashes the payload's values")
        else:
            T("hash", v, "atomic", "other")
for v in VARIANTS:
    if v not in seen:
        T("hash", v, "missing", "no arm")
# the delegates really hash the values inside
if "self.fields" not in find_block(structs, r"\bimpl\s+Hash\s+for\s+UserDefinedStruct\s*\{", "Hash for UserDefinedStruct"):
    die("Hash for UserDefinedStruct no longer hashes the fields")
if not re.search(r"derive\([^)]*\bHash\b[^)]*\)\]\s*pub\s+struct\s+Pair\b", open(os.path.join(CORE, "values/lists.rs")).read()):
    die("Pair no longer derives Hash")

# ---- print ---------------------------------------------------------------------------------------------------------
fmt = fn_body(cycles, "format_with_cycles")
m = re.search(r"if\s+self\.depth\s*>\s*(\d+)\s*\{", fmt)
PRINT_LIMIT = int(m.group(1)) if m else 0
seen = set()
for pat, expr in match_arms(fmt, r"val"):
    for v in variants_of(pat):
        if v not in VARIANTS or v in seen:
            continue
        seen.add(v)
        b = binder(pat)
        # a `write!` whose arguments mention the payload formats it with Display/Debug of its own type
        reenter = False
        if b and HOLDS[v]:
            for w in re.finditer(r"write!\s*\(", expr):
                args, _ = (lambda s, o: (s[o:s.find(";", o) if s.find(";", o) > 0 else len(s)], 0))(expr, w.end())
                # cut at the matching parenthesis
                depth, k = 1, w.end()
                while k < len(expr) and depth:
                    depth += expr[k] == "("
                    depth -= expr[k] == ")"
                    k += 1
                args = expr[w.end():k - 1]
                parts = args.split(",", 2)
                if len(parts) >= 3 and re.search(r"\b%s\b" % re.escape(b), parts[2]) and "?" in parts[1]:
                    reenter = True
        if v in ("Custom", "Reference", "PortV"):
            T("print", v, "atomic", "host object prints itself")
        elif reenter and "self.format_with_cycles(" in expr:
            # both: an arm for the cycle table entry and a plain one
            T("print", v, "recUnbounded", "formats the payload through Display again")
        elif reenter:
            T("print", v, "recUnbounded", "formats the payload through Display again")
        elif "self.format_with_cycles(" in expr:
            T("print", v, "recBounded %d" % PRINT_LIMIT if PRINT_LIMIT else "recUnbounded", "calls itself, depth counter")
        else:
            T("print", v, "atomic", "constant text")
for v in VARIANTS:
    if v not in seen:
        T("print", v, "missing", "no arm")

# ---- equal ---------------------------------------------------------------------------------------------------------
eq_impl = find_block(cycles, r"\bimpl<'a>\s+RecursiveEqualityHandler<'a>\s*\{", "impl RecursiveEqualityHandler")
eq_visit = fn_body(eq_impl, "visit")
if not re.search(r"\bloop\s*\{", eq_visit) or "pop_front()" not in eq_visit:
    die("RecursiveEqualityHandler::visit is no longer a loop over the queues")
eq_arms = {}
for pat, expr in match_arms(eq_visit, r"\(left,\s*right\)"):
    m = re.match(r"\(\s*(?:SteelVal::)?(\w+)(?:\([^)]*\))?\s*,\s*(?:SteelVal::)?(\w+)(?:\([^)]*\))?\s*\)$", pat.strip())
    if m:
        eq_arms[(m.group(1), m.group(2))] = expr
EQ_FLAGS = {}
for v in VARIANTS:
    e = eq_arms.get((v, v))
    if e is None:
        T("equal", v, "atomic", "no arm: different")
    elif re.search(r"\.get\(key\)|\.contains\(key\)", e):
        T("equal", v, "recUnbounded", "key lookup calls == again")
    elif re.search(r"push_back|\.visit_\w+\(", e):
        T("equal", v, "iterative", "pushes the children" + ("" if "should_visit" in e else ", no should_visit"))
    else:
        T("equal", v, "atomic", "compares on the spot")


def arm_has(a, b, needle):
    e = eq_arms.get((a, b))
    return e is not None and needle in e


EQ_FLAGS["eqBoxVisited"] = arm_has("Boxed", "Boxed", "should_visit") and arm_has("HeapAllocated", "HeapAllocated", "should_visit")
EQ_FLAGS["eqMixVecVisited"] = arm_has("VectorV", "MutableVector", "should_visit") and arm_has("MutableVector", "VectorV", "should_visit")
EQ_FLAGS["eqKeysIterative"] = not (arm_has("HashMapV", "HashMapV", ".get(key)") or arm_has("HashSetV", "HashSetV", ".contains(key)"))
EQ_CHECKED = sorted(v for v in VARIANTS if arm_has(v, v, "should_visit"))

# ---- visitors: variant -> visit_* (default `visit` of the trait) -------------------------------------------------------
trait = find_block(cycles, r"\bpub\s+trait\s+BreadthFirstSearchSteelValVisitor\s*\{", "trait BreadthFirstSearchSteelValVisitor")
trait_visit = fn_body(trait, "visit")
if not re.search(r"while\s+let\s+Some\(value\)\s*=\s*self\.pop_front\(\)", trait_visit):
    die("BreadthFirstSearchSteelValVisitor::visit is no longer a worklist loop")
DISPATCH = {}
for pat, expr in match_arms(trait_visit, r"value"):
    m = re.search(r"self\.(visit_\w+)\(", expr)
    for v in variants_of(pat):
        if v in VARIANTS and m:
            DISPATCH[v] = m.group(1)


def visitor_rows(op, impl_re, src, what, own_visit_required=False):
    impl = find_block(src, impl_re, what)
    ms = methods(impl)
    if own_visit_required:
        if "visit" not in ms or not re.search(r"while\s+let\s+Some\(value\)\s*=\s*self\.pop_front\(\)", ms["visit"]):
            die(what + ": own visit() is not a worklist loop")
    for v in VARIANTS:
        meth = DISPATCH.get(v)
        if meth is None or meth not in ms:
            T(op, v, "missing", "no visit method")
            continue
        body = ms[meth].strip()
        if re.search(r"self\.visit\(\)|\bSelf::visit\(", body):
            T(op, v, "recUnbounded", "calls visit again")
        elif body == "":
            T(op, v, "atomic", "not walked")
        else:
            T(op, v, "iterative", "pushes")
    return ms


mark_ms = visitor_rows("mark", r"\bimpl<'a>\s+BreadthFirstSearchSteelValVisitor\s+for\s+MarkAndSweepContext<'a>\s*\{", closed,
                       "impl Visitor for MarkAndSweepContext")
cc_ms = visitor_rows("collect", r"\bimpl<'a>\s+BreadthFirstSearchSteelValVisitor\s+for\s+CycleCollector<'a>\s*\{", cycles,
                     "impl Visitor for CycleCollector")
drop_ms = visitor_rows("dropwl", r"\bimpl<'a>\s+BreadthFirstSearchSteelValVisitor\s+for\s+IterativeDropHandler<'a>\s*\{", cycles,
                       "impl Visitor for IterativeDropHandler", own_visit_required=True)
# second copy of the marker
mark2 = find_block(closed, r"\bimpl<'a>\s+BreadthFirstSearchSteelValReferenceVisitor2<'a>\s+for\s+MarkAndSweepContextRefQueue<'a>\s*\{",
                   "impl Visitor2 for MarkAndSweepContextRefQueue")
mark2_ms = methods(mark2)
MARK2_REC = sorted(k for k, b in mark2_ms.items() if re.search(r"self\.visit\(\)", b))
mstruct = find_block(closed, r"\bpub\s+struct\s+MarkAndSweepContext<'a>\s*\{", "struct MarkAndSweepContext")
mstruct2 = find_block(closed, r"\bpub\s+struct\s+MarkAndSweepContextRefQueue<'a>\s*\{", "struct MarkAndSweepContextRefQueue")
FLAGS = dict(EQ_FLAGS)
vis_re = r"visited|seen|\.contains\(|\.insert\("
FLAGS["markSboxVisited"] = bool(re.search(vis_re, mark_ms.get("visit_boxed_value", ""))) and bool(re.search(vis_re, mark2_ms.get("visit_boxed_value", "")))
FLAGS["markImmVisited"] = bool(re.search(r"visited|seen", mstruct)) and bool(re.search(r"visited|seen", mstruct2))
FLAGS["ccSboxMutable"] = "self.found_mutable = true" in cc_ms.get("visit_boxed_value", "")
cc_impl = find_block(cycles, r"\bimpl<'a>\s+CycleCollector<'a>\s*\{", "impl CycleCollector")
cc_add = fn_body(cc_impl, "add")
FLAGS["ccTracksAlways"] = not re.search(r"if\s+!self\.found_mutable\s*\{\s*return\s+false;", cc_add)
CC_SETS_FOUND = sorted(v for v in VARIANTS if DISPATCH.get(v) in cc_ms and "self.found_mutable = true" in cc_ms[DISPATCH[v]])
FLAGS["hashIterative"] = hash_has_stack
FLAGS["hashCycleSafe"] = bool(re.search(r"visited|seen|in_progress", hash_fn))
def _row(op, v):
    for o, vv, t, _ in table:
        if o == op and vv == v:
            return t
    return "missing"


FLAGS["printBoxNoReentry"] = all(_row("print", v) != "recUnbounded" for v in ("Boxed", "HeapAllocated"))
FLAGS["printMapNoReentry"] = all(_row("print", v) != "recUnbounded" for v in ("HashMapV", "HashSetV"))

# ---- drop ----------------------------------------------------------------------------------------------------------
drop_mod = find_block(cycles, r"\bpub\(crate\)\s+mod\s+drop_impls\s*\{", "mod drop_impls")
DROP_IMPLS = sorted(set(m.group(2) for m in re.finditer(r"\bimpl\s+Drop\s+for\s+((?:\w+::)*)(\w+)", drop_mod)))
for t in DROP_IMPLS:
    b = find_block(drop_mod, r"\bimpl\s+Drop\s+for\s+(?:\w+::)*%s\s*\{" % t, "Drop for " + t)
    if "IterativeDropHandler::bfs" not in b:
        die("Drop for %s does not start the worklist" % t)
list_handler = "IterativeDropHandler::bfs" in lists and re.search(r"type\s+DropHandlerChoice\s*=\s*list_drop_handler::ListDropHandler", lists)
for v in VARIANTS:
    t = PAYLOAD[v]
    if not HOLDS[v]:
        T("drop", v, "atomic", "nothing inside")
    elif t.startswith("HeapRef<"):
        T("drop", v, "atomic", "weak handle")
    elif v == "ListV":
        T("drop", v, "iterative" if list_handler else "recUnbounded", "list_drop_handler")
    elif any(re.search(r"\b%s\b" % d, t) for d in DROP_IMPLS):
        T("drop", v, "iterative", "impl Drop starts the worklist")
    else:
        T("drop", v, "recUnbounded", "no impl Drop: recursive drop glue")
FLAGS["dropPairSetIterative"] = all(_row("drop", v) != "recUnbounded" for v in ("Pair", "HashSetV"))
FLAGS["dropClosureBoxIterative"] = all(_row("drop", v) != "recUnbounded" for v in ("Closure", "Boxed"))

# ---- send ----------------------------------------------------------------------------------------------------------
send_fn = fn_body(threads, "channel_send")
moved = bool(re.search(r"\.send\(value\.as_rooted\(\)\)", send_fn)) and not re.search(r"\bfor\b|\bwhile\b|\bloop\b|into_serializable", send_fn)
spawn_fn = find_block(threads, r"pub\(crate\)\s+fn\s+spawn_native_thread\s*\(ctx", "spawn_native_thread (sync)")
spawn_moved = "into_serializable" not in spawn_fn
for v in VARIANTS:
    T("send", v, "atomic" if moved and spawn_moved else "recUnbounded", "the reference is moved")

# ---- serialize -----------------------------------------------------------------------------------------------------
ser = find_block(rvals, r"\bpub\s+fn\s+into_serializable_value\s*\(", "into_serializable_value")
seen = set()
for pat, expr in match_arms(ser, r"val"):
    for v in variants_of(pat):
        if v not in VARIANTS or v in seen:
            continue
        seen.add(v)
        if re.search(r"\binto_serializable_value\(|closure_into_serializable\(", expr):
            T("serialize", v, "recUnbounded", "calls itself")
        else:
            T("serialize", v, "atomic", "")
for v in VARIANTS:
    if v not in seen:
        T("serialize", v, "atomic", "not serializable: error")

# ---- call graph ----------------------------------------------------------------------------------------------------
# Nodes: `Type::method` for every method of the visitor types (all their impl blocks; the trait's default `visit` when the
# impl does not override it), `ext:name` for every function that is handed the visitor (`x.visit_children(self)`,
# `inner.drop_mut(self)`: the union of the bodies of ALL functions of that name in the crate), `Drop<T>::drop` for the
# payload types with a Drop impl, `PartialEq<SteelVal>::eq`.  Edges: `self.m(…)`, `Self::m(…)`, `Type::m(…)`,
# `<local of a visitor type>.m(…)`, `<visitor parameter>.m(…)` inside an `ext:` function, a visitor passed on.
# Not seen by this scan: calls through closures and drops of temporaries (the compiler's drop glue).
ALL_RS = {}
for root, _, files in os.walk(CORE):
    for fn in files:
        if fn.endswith(".rs"):
            ALL_RS[os.path.join(root, fn)] = None


def all_src():
    for pth in list(ALL_RS):
        if ALL_RS[pth] is None:
            ALL_RS[pth] = strip(open(pth).read())
        yield ALL_RS[pth]


def impl_blocks(src, header_re):
    out = []
    for m in re.finditer(header_re, src):
        o = src.find("{", m.end() - 1)
        out.append(block_at(src, o)[0])
    return out


VISITOR_TYPES = {
    # type: (source, [header regexes of its impl blocks], trait whose default `visit` applies)
    "MarkAndSweepContext": (closed, [r"\bimpl<'a>\s+BreadthFirstSearchSteelValVisitor\s+for\s+MarkAndSweepContext<'a>\s*\{",
                                     r"\bimpl<'a>\s+MarkAndSweepContext<'a>\s*\{"], "BreadthFirstSearchSteelValVisitor"),
    "MarkAndSweepContextRefQueue": (closed, [r"\bimpl<'a>\s+BreadthFirstSearchSteelValReferenceVisitor2<'a>\s+for\s+MarkAndSweepContextRefQueue<'a>\s*\{",
                                             r"\bimpl<'a>\s+MarkAndSweepContextRefQueue<'a>\s*\{"], "BreadthFirstSearchSteelValReferenceVisitor2"),
    "CycleCollector": (cycles, [r"\bimpl<'a>\s+BreadthFirstSearchSteelValVisitor\s+for\s+CycleCollector<'a>\s*\{",
                                r"\bimpl<'a>\s+CycleCollector<'a>\s*\{"], "BreadthFirstSearchSteelValVisitor"),
    "IterativeDropHandler": (cycles, [r"\bimpl<'a>\s+BreadthFirstSearchSteelValVisitor\s+for\s+IterativeDropHandler<'a>\s*\{",
                                      r"\bimpl<'a>\s+IterativeDropHandler<'a>\s*\{"], "BreadthFirstSearchSteelValVisitor"),
    "EqualityVisitor": (cycles, [r"\bimpl<'a>\s+BreadthFirstSearchSteelValVisitor\s+for\s+EqualityVisitor<'a>\s*\{"],
                        "BreadthFirstSearchSteelValVisitor"),
    "RecursiveEqualityHandler": (cycles, [r"\bimpl<'a>\s+RecursiveEqualityHandler<'a>\s*\{"], None),
}
TRAIT_SRC = {"BreadthFirstSearchSteelValVisitor": cycles, "BreadthFirstSearchSteelValReferenceVisitor2": cycles}
CG = {}          # node -> set of callees
BODY = {}        # node -> body text


def trait_methods(tname):
    m = re.search(r"\bpub(?:\(crate\))?\s+trait\s+%s(<'a>)?\s*\{" % tname, TRAIT_SRC[tname])
    if not m:
        die("trait %s not found" % tname)
    return methods(block_at(TRAIT_SRC[tname], TRAIT_SRC[tname].find("{", m.end() - 1))[0])


for ty, (src_, headers, tr) in VISITOR_TYPES.items():
    ms = {}
    for h in headers:
        for blk in impl_blocks(src_, h):
            for k, b in methods(blk).items():
                ms.setdefault(k, b)
    if not ms:
        die("no impl block found for " + ty)
    if tr:
        for k, b in trait_methods(tr).items():
            ms.setdefault(k, b)            # provided methods (the default `visit`)
    for k, b in ms.items():
        BODY["%s::%s" % (ty, k)] = b

# locals / fields of a visitor type inside a body: `let mut x = Type {`, fields `left` / `right` of the equality handler
FIELD_TYPES = {"RecursiveEqualityHandler": {"left": "EqualityVisitor", "right": "EqualityVisitor"}}
EXT = {}         # ext name -> set of visitor types it was handed


def edges_of(node, body, self_ty, params):
    """params: {identifier: visitor type} — names that denote a visitor inside this body (`self` included)."""
    out = set()
    names = dict(params)
    for m in re.finditer(r"\blet\s+(?:mut\s+)?(\w+)\s*=\s*(\w+)\s*\{", body):
        if m.group(2) in VISITOR_TYPES:
            names[m.group(1)] = m.group(2)
    if self_ty:
        for f, t in FIELD_TYPES.get(self_ty, {}).items():
            names["self." + f] = t
    for ident, ty in names.items():
        for m in re.finditer(r"(?<![\w.])%s\s*\.\s*(\w+)\s*\(" % re.escape(ident), body):
            tgt = "%s::%s" % (ty, m.group(1))
            if tgt in BODY:
                out.add(tgt)
    for m in re.finditer(r"\b(\w+)\s*\{[^{}]*\}\s*\.\s*(\w+)\s*\(", body):
        if m.group(1) in VISITOR_TYPES and "%s::%s" % (m.group(1), m.group(2)) in BODY:
            out.add("%s::%s" % (m.group(1), m.group(2)))
    for m in re.finditer(r"\b(Self|\w+)::(\w+)\s*\(", body):
        ty = self_ty if m.group(1) == "Self" else m.group(1)
        tgt = "%s::%s" % (ty, m.group(2))
        if tgt in BODY:
            out.add(tgt)
    # the visitor handed to somebody else: `recv.f(…, self, …)` / `recv.f(&mut local)`
    for m in re.finditer(r"[.:]\s*(\w+)\s*\(([^()]*)\)", body):
        for ident, ty in names.items():
            if "." in ident:
                continue
            if re.search(r"(?:^|,)\s*(?:&mut\s+|&\s*)?%s\s*(?:,|$)" % re.escape(ident), m.group(2)):
                if "%s::%s" % (ty, m.group(1)) in BODY:
                    continue
                EXT.setdefault(m.group(1), set()).add(ty)
                out.add("ext:" + m.group(1))
    # a nested comparison / hash of values: `==` between values is `PartialEq for SteelVal`
    if self_ty == "RecursiveEqualityHandler" and re.search(r"\.get\(key\)|\.contains\(key\)", body):
        out.add("PartialEq<SteelVal>::eq")
    return out


for node, body in list(BODY.items()):
    ty = node.split("::")[0]
    CG[node] = edges_of(node, body, ty, {"self": ty})
# PartialEq for SteelVal builds the handler and calls compare_equality
peq = find_block(cycles, r"\bimpl\s+PartialEq\s+for\s+SteelVal\s*\{", "impl PartialEq for SteelVal")
BODY["PartialEq<SteelVal>::eq"] = fn_body(peq, "eq")
CG["PartialEq<SteelVal>::eq"] = edges_of("PartialEq<SteelVal>::eq", BODY["PartialEq<SteelVal>::eq"], None, {})
# Drop impls start the drop handler
for t in DROP_IMPLS:
    b = find_block(drop_mod, r"\bimpl\s+Drop\s+for\s+(?:\w+::)*%s\s*\{" % t, "Drop for " + t)
    CG["Drop<%s>::drop" % t] = edges_of("Drop<%s>::drop" % t, b, None, {})
# functions that were handed a visitor: every function of that name anywhere in the crate, one node per owner
# (`ext:name@<impl or trait header>`).  A call `self.name(visitor)` inside such a function goes to the definitions of the
# same owner (or, when the owner has none, to all); a call on another receiver goes to the definitions of all OTHER owners
# (the scan does not know types: a function that calls its own name on a value of its own type is not seen as recursive).
OWNERS = {}      # file text -> list of (start, end, header)


def owners_of(src_):
    if src_ not in OWNERS:
        lst = []
        for m in re.finditer(r"\b(impl|trait)\b[^{};]*\{", src_):
            o = m.end() - 1
            try:
                _, e = block_at(src_, o)
            except SystemExit:
                continue
            lst.append((o, e, re.sub(r"\s+", " ", src_[m.start():o]).strip()))
        OWNERS[src_] = lst
    return OWNERS[src_]


def owner_at(src_, pos):
    best = None
    for o, e, h in owners_of(src_):
        if o <= pos < e and (best is None or o > best[0]):
            best = (o, h)
    return best[1] if best else "free"


EXT_DEFS = {}    # name -> list of (owner, params, body)


def ext_defs(name):
    if name in EXT_DEFS:
        return EXT_DEFS[name]
    defs = []
    for src_ in all_src():
        for m in re.finditer(r"\bfn\s+%s\s*(?:<[^>{]*>)?\s*\(" % re.escape(name), src_):
            depth, j = 0, m.end() - 1
            while True:
                depth += src_[j] == "("
                depth -= src_[j] == ")"
                if depth == 0:
                    break
                j += 1
            sig = src_[m.end():j]
            k = re.match(r"\s*(->\s*[^{;]+)?\s*([{;])", src_[j + 1:])
            if not k or k.group(2) == ";":
                continue
            body = block_at(src_, j + 1 + k.end() - 1)[0]
            params = {}
            for pm in re.finditer(r"(\w+)\s*:\s*&(?:'\w+\s+)?mut\s+(?:\w+::)*(\w+)", sig):
                if pm.group(2) in VISITOR_TYPES:
                    params[pm.group(1)] = pm.group(2)
            if params:
                defs.append((owner_at(src_, m.start()), params, body))
    EXT_DEFS[name] = defs
    return defs


def ext_node(name, owner):
    return "ext:%s@%s" % (name, re.sub(r"[^\w<>:+' ]", "", owner))


def resolve_ext(name, from_owner, via_self):
    defs = ext_defs(name)
    if not defs:
        die("a visitor is handed to `%s`, but no function of that name takes one" % name)
    if via_self:
        same = [d for d in defs if d[0] == from_owner]
        pick = same or defs
    else:
        pick = [d for d in defs if d[0] != from_owner] if from_owner else defs
    return [ext_node(name, d[0]) for d in pick]


def expand_ext(node_edges, from_owner, body):
    """replace the placeholders `ext:name` by owner-qualified nodes"""
    out = set()
    for y in node_edges:
        if y.startswith("ext:") and "@" not in y:
            name = y[4:]
            via_self = bool(re.search(r"\bself\s*\.\s*%s\s*\(" % re.escape(name), body))
            out |= set(resolve_ext(name, from_owner, via_self))
        else:
            out.add(y)
    return out


for node in list(CG):
    CG[node] = expand_ext(CG[node], None, BODY.get(node, ""))
todo_ext = sorted(y for ys in CG.values() for y in ys if y.startswith("ext:") and y not in CG)
while todo_ext:
    node = todo_ext.pop()
    if node in CG:
        continue
    name, owner_key = node[4:].split("@", 1)
    callees = set()
    for owner, params, body in ext_defs(name):
        if ext_node(name, owner) != node:
            continue
        callees |= expand_ext(edges_of(node, body, None, params), owner, body)
    CG[node] = callees
    todo_ext += [y for y in callees if y.startswith("ext:") and y not in CG]

ENTRIES = [("mark", "MarkAndSweepContext::visit"), ("mark2", "MarkAndSweepContextRefQueue::visit"),
           ("collect", "CycleCollector::visit"), ("dropwl", "IterativeDropHandler::visit"),
           ("equal", "RecursiveEqualityHandler::compare_equality")]
for _, e in ENTRIES:
    if e not in CG:
        die("entry point %s not found" % e)


def reach(start):
    seen_, todo = set(), [start]
    while todo:
        x = todo.pop()
        for y in CG.get(x, ()):
            if y not in seen_:
                seen_.add(y)
                todo.append(y)
    return seen_


# two graphs: the worklists (marker, both copies; cycle collector; drop handler with the Drop impls that start it), which have to
# be free of cycles, and the equality handler (whose key lookups re-enter `==`: K18d)
def restrict(entries_):
    keep_ = set()
    for e in entries_:
        keep_ |= {e} | reach(e)
    order_, state_ = [], {}

    def topo(n):
        if state_.get(n):
            return           # finished, or on the stack (a cycle: no topological order, the Lean check `ranked` fails)
        state_[n] = 1
        for y in sorted(CG.get(n, ())):
            if y in keep_:
                topo(y)
        state_[n] = 2
        order_.append(n)

    for n in sorted(keep_):
        topo(n)
    return keep_, order_


sys.setrecursionlimit(10000)
WL_ENTRIES = [e for o, e in ENTRIES if o != "equal"] + sorted(n for n in CG if n.startswith("Drop<"))
keep, order = restrict(WL_ENTRIES)
eq_keep, eq_order = restrict([e for o, e in ENTRIES if o == "equal"])
# per (operation, variant): does the variant's visit method lead back into a loop entry?  (mutual recursion between methods)
RECURSIVE_PATHS = []
TYPE_OF_OP = {"mark": "MarkAndSweepContext", "collect": "CycleCollector", "dropwl": "IterativeDropHandler"}
for i, (op, v, t, note) in enumerate(table):
    ty = TYPE_OF_OP.get(op)
    meth = DISPATCH.get(v)
    if not ty or not meth or t not in ("iterative", "atomic"):
        continue
    node = "%s::%s" % (ty, meth)
    r = reach(node)
    back = sorted(x for x in r if x.endswith("::visit") or x.endswith("::bfs") or x == node)
    if back:
        table[i] = (op, v, "recUnbounded", "reaches %s again through the call graph" % back[0])
        RECURSIVE_PATHS.append("%s/%s -> %s" % (op, v, back[0]))
for n in sorted(x for x in CG if x.startswith("MarkAndSweepContextRefQueue::visit_")):
    r = reach(n)
    if any(x.endswith("::visit") or x == n for x in r) and n.split("::")[1] not in MARK2_REC:
        MARK2_REC.append(n.split("::")[1])
MARK2_REC.sort()

# ---- output --------------------------------------------------------------------------------------------------------
OPS = ["hash", "print", "equal", "mark", "collect", "dropwl", "drop", "send", "serialize"]


def lt(t):
    if t.startswith("recBounded"):
        return "(.recBounded %s)" % t.split()[1]
    return "." + t


lines = ["-- GENERATED by translate/c18_traversals.py from %s — do not edit." % CORE,
         "namespace SteelVerif.C18.Gen", "",
         "inductive T", "  | atomic | iterative | recBounded (limit : Nat) | recUnbounded | missing", "  deriving DecidableEq, Repr", "",
         "def variants : List String := [" + ", ".join('"%s"' % v for v in VARIANTS) + "]", "",
         "def ops : List String := [" + ", ".join('"%s"' % o for o in OPS) + "]", "",
         "/-- (operation, variant, traversal) -/", "def table : List (String × String × T) := ["]
rows = []
for op, v, t, note in table:
    rows.append('  ("%s", "%s", %s)' % (op, v, lt(t)) + ("   -- " + note if note else ""))
# comments must not follow the separating comma on the same line in a way that breaks parsing: put the comma before the comment
body = []
for i, r in enumerate(rows):
    if " -- " in r:
        code, com = r.split("   -- ", 1)
        body.append(code + ("," if i + 1 < len(rows) else "") + "   -- " + com)
    else:
        body.append(r + ("," if i + 1 < len(rows) else ""))
lines += body + ["]", ""]
lines.append("def printLimit : Nat := %d" % PRINT_LIMIT)
lines.append("def dropImpls : List String := [" + ", ".join('"%s"' % d for d in DROP_IMPLS) + "]")
lines.append("def listDropHandler : Bool := %s" % ("true" if list_handler else "false"))
lines.append("def eqCheckedVariants : List String := [" + ", ".join('"%s"' % d for d in EQ_CHECKED) + "]")
lines.append("def ccSetsFoundVariants : List String := [" + ", ".join('"%s"' % d for d in CC_SETS_FOUND) + "]")
lines.append("def mark2Recursive : List String := [" + ", ".join('"%s"' % d for d in MARK2_REC) + "]")
for k in ["eqBoxVisited", "eqMixVecVisited", "eqKeysIterative", "markSboxVisited", "markImmVisited", "ccSboxMutable",
          "ccTracksAlways", "hashIterative", "hashCycleSafe", "printBoxNoReentry", "printMapNoReentry", "dropPairSetIterative",
          "dropClosureBoxIterative"]:
    lines.append("def %s : Bool := %s" % (k, "true" if FLAGS[k] else "false"))
lines.append("")
def emit_graph(prefix, order_, keep_, doc):
    idx = dict((n, i) for i, n in enumerate(order_))
    lines.append("/-- %s -/" % doc)
    lines.append("def %sFns : List String := [" % prefix)
    lines.append(",\n".join('  "%s"' % n for n in order_))
    lines.append("]")
    lines.append("/-- entry `i`: the functions (positions in `%sFns`) that function `i` calls -/" % prefix)
    lines.append("def %sCalls : List (List Nat) := [" % prefix)
    lines.append(",\n".join("  [%s]" % ", ".join(str(idx[y]) for y in sorted(CG.get(n, ())) if y in keep_) for n in order_))
    lines.append("]")
    return idx


wl_idx = emit_graph("wl", order, keep, "the functions of the worklist traversals (marker, its parallel copy, cycle collector, drop handler, "
                    "the Drop impls that start it, whatever they hand the visitor to), callees before their callers when there is no cycle")
eq_idx = emit_graph("eq", eq_order, eq_keep, "the functions of the equality handler")
lines.append("def wlEntries : List (String × Nat) := [" + ", ".join('("%s", %d)' % (o, wl_idx[e]) for o, e in ENTRIES if o != "equal") + "]")
lines.append("def wlDropEntries : List Nat := [" + ", ".join(str(wl_idx[n]) for n in sorted(CG) if n.startswith("Drop<")) + "]")
lines.append("def eqEntry : Nat := %d" % eq_idx["RecursiveEqualityHandler::compare_equality"])
lines.append("def recursivePaths : List String := [" + ", ".join('"%s"' % d for d in RECURSIVE_PATHS) + "]")
lines += ["", "end SteelVerif.C18.Gen", ""]
text = "\n".join(lines)
old = open(OUT).read() if os.path.exists(OUT) else None
if old != text:
    with open(OUT, "w") as f:
        f.write(text)
summary = {}
for op, v, t, _ in table:
    summary.setdefault(op, {}).setdefault(t.split()[0], []).append(v)
for op in OPS:
    print("c18_traversals: %-9s %s" % (op, "; ".join("%s=%d" % (k, len(vs)) for k, vs in sorted(summary.get(op, {}).items()))))
    for k in ("recUnbounded", "missing"):
        if summary.get(op, {}).get(k):
            print("c18_traversals:           %s: %s" % (k, " ".join(summary[op][k])))
def _depth(n, seen_=()):
    if n in seen_:
        return 10 ** 6
    return 1 + max([_depth(y, seen_ + (n,)) for y in CG.get(n, ())] or [0])


for op_, e_ in ENTRIES:
    d_ = _depth(e_)
    print("c18_traversals: call graph %-8s entry %s: %s" % (op_, e_, "longest call chain %d" % d_ if d_ < 10 ** 6 else "RECURSIVE"))
print("c18_traversals: call graph of the worklists %d functions, %d edges; of the equality handler %d functions; recursive paths from visit methods: %s" % (
    len(order), sum(len([y for y in CG.get(n, ()) if y in keep]) for n in order), len(eq_order), RECURSIVE_PATHS or "none"))
print("c18_traversals: flags " + " ".join("%s=%s" % (k, FLAGS[k]) for k in sorted(FLAGS)))
print("c18_traversals: %d variants, %d rows, print limit %d, Drop impls %s" % (len(VARIANTS), len(table), PRINT_LIMIT, DROP_IMPLS))
