#!/usr/bin/env python3
"""C16 translator: LOCK ORDER of the world-stopping operations of /repo/crates/steel-core (reads only).

A stopper (Heap::mark of values/closed.rs; SteelThread::with_locked_env of steel_vm/vm.rs) spins in enumerate_stacks / call_per_ctx
until every other thread has PUBLISHED itself.  Whatever lock it holds during that spin must be one that other threads take only
from inside a safepoint (published) - otherwise a thread blocks on it unpublished and both wait for ever.
Table (lean/SteelVerif/C16/GenLocksTable.lean, facts .build/C16/locks.json):
  heldAtSpin   named guards (`let x = M.lock()…;`, x != `_`) a stopper function binds BEFORE its first enumerate_stacks / call_per_ctx
  lockSites    every `M.lock()` of the static mutexes of values/closed.rs (GLOBAL_ROOTS, …) and of every mutex in heldAtSpin:
               file, fn, line, inSafepoint (inside the closure of an enter_safepoint call), inStopper
  heapSites    every `heap.lock()` / `heap.lock_arc()`: the heap mutex IS held during the spin, so every other site must be inside
               a safepoint (exceptions: the serialised-spawn / engine-clone paths, which are not part of the native-thread handshake)
"""
import json
import os
import re
import sys

VERIF = "/verif"
REPO = os.environ.get("C16_LOCKS_REPO", "/repo")
SRC = os.path.join(REPO, "crates/steel-core/src")


def strip_comments(src):
    return re.sub(r"//[^\n]*", lambda m: " " * len(m.group(0)), src)


def fn_spans(src):
    out = []
    for m in re.finditer(r"\bfn\s+([A-Za-z_0-9]+)\s*(?:<[^{;]*?>)?\s*\(", src):
        i = src.find("{", m.end())
        semi = src.find(";", m.end())
        if i < 0 or (0 <= semi < i and "where" not in src[m.end():semi] and src[m.end():semi].count("{") == 0 and src[m.end():i].count(";") > 0 and src[m.end():semi].count("(") < src[m.end():semi].count(")")):
            continue
        depth, j = 0, i
        while j < len(src):
            c = src[j]
            if c == "{":
                depth += 1
            elif c == "}":
                depth -= 1
                if depth == 0:
                    break
            j += 1
        out.append((m.group(1), m.start(), j + 1))
    return out


def enclosing(spans, pos):
    best = None
    for n, a, b in spans:
        if a <= pos < b and (best is None or a > best[1]):
            best = (n, a, b)
    return best


def safepoint_ranges(src):
    """(start, end) of the argument list of every enter_safepoint( … ) / enter_safepoint_once( … ) call."""
    out = []
    for m in re.finditer(r"enter_safepoint(?:_once)?\s*\(", src):
        depth, j = 0, m.end() - 1
        while j < len(src):
            if src[j] == "(":
                depth += 1
            elif src[j] == ")":
                depth -= 1
                if depth == 0:
                    break
            j += 1
        out.append((m.end(), j))
    return out


def main():
    files = {}
    for root, _, fs in os.walk(SRC):
        for f in fs:
            if f.endswith(".rs"):
                p = os.path.join(root, f)
                files[os.path.relpath(p, SRC)] = strip_comments(open(p, errors="replace").read())
    closed = files["values/closed.rs"]
    statics = re.findall(r"static\s+([A-Z_0-9]+)\s*:\s*[^=;]*(?:Mutex|RwLock)", closed)
    stoppers = []   # (file, fn, a, b)
    for fn, src in (("values/closed.rs", closed), ("steel_vm/vm.rs", files["steel_vm/vm.rs"])):
        for n, a, b in fn_spans(src):
            body = src[a:b]
            if re.search(r"\bstop_threads\s*\(", body) and re.search(r"\b(?:enumerate_stacks|call_per_ctx)\s*\(", body) and n != "stop_threads":
                stoppers.append((fn, n, a, b))
    held = []
    for fn, n, a, b in stoppers:
        src = files[fn]
        body = src[a:b]
        spin = re.search(r"\b(?:enumerate_stacks|call_per_ctx)\s*\(", body).start()
        for m in re.finditer(r"let\s+(?:mut\s+)?([A-Za-z_][A-Za-z_0-9]*)\s*(?::[^=;]*)?=\s*([^;]*?)\.\s*(?:lock|write|read)\s*\(\s*\)[^;]*;", body[:spin], re.S):
            name, expr = m.group(1), m.group(2)
            if name == "_":
                continue
            mutex = re.findall(r"[A-Za-z_][A-Za-z_0-9]*", expr)[-1] if re.findall(r"[A-Za-z_][A-Za-z_0-9]*", expr) else expr.strip()
            dropped = re.search(r"drop\s*\(\s*%s\s*\)" % re.escape(name), body[m.end():spin]) is not None
            if not dropped:
                held.append((fn, n, src.count("\n", 0, a + m.start()) + 1, mutex))
    mutexes = sorted(set(statics) | {h[3] for h in held})
    sites = []
    heap_sites = []
    stopper_names = {(f, n) for f, n, _, _ in stoppers} | {("values/closed.rs", "mark_and_sweep_new")}
    for fn, src in sorted(files.items()):
        spans = fn_spans(src)
        sps = safepoint_ranges(src)
        for mx in mutexes:
            for m in re.finditer(r"\b%s\s*\.\s*(?:lock|write|read)\s*\(\s*\)" % re.escape(mx), src):
                f = enclosing(spans, m.start())
                name = f[0] if f else "?"
                sites.append((fn, name, src.count("\n", 0, m.start()) + 1, mx, any(a <= m.start() < b for a, b in sps), (fn, name) in stopper_names))
        for m in re.finditer(r"\bheap\s*\.\s*lock(?:_arc)?\s*\(\s*\)", src):
            f = enclosing(spans, m.start())
            heap_sites.append((fn, f[0] if f else "?", src.count("\n", 0, m.start()) + 1, any(a <= m.start() < b for a, b in sps)))
    q = lambda s: '"%s"' % s
    bl = lambda x: "true" if x else "false"
    g = ["/- GENERATED by translate/c16_locks.py from /repo (do not edit). -/", "namespace SteelVerif.C16", "",
         "/-- A named lock guard a stopper function binds before it spins on the other threads' publication. -/",
         "structure HeldLock where", "  file : String", "  fn : String", "  line : Nat", "  mutex : String", "deriving DecidableEq, Repr", "",
         "/-- One acquisition of a mutex. -/",
         "structure LockSite where", "  file : String", "  fn : String", "  line : Nat", "  mutex : String", "  inSafepoint : Bool", "  inStopper : Bool",
         "deriving DecidableEq, Repr", "",
         "structure HeapSite where", "  file : String", "  fn : String", "  line : Nat", "  inSafepoint : Bool", "deriving DecidableEq, Repr", "",
         "def stopperFns : List String := [%s]" % ", ".join(q(n) for _, n, _, _ in stoppers),
         "def heldAtSpin : List HeldLock := [%s]" % ", ".join("⟨%s, %s, %d, %s⟩" % (q(f), q(n), ln, q(mx)) for f, n, ln, mx in held),
         "def lockSites : List LockSite := ["]
    g += ["  ⟨%s, %s, %d, %s, %s, %s⟩%s" % (q(f), q(n), ln, q(mx), bl(sp), bl(st), "," if i + 1 < len(sites) else "")
          for i, (f, n, ln, mx, sp, st) in enumerate(sites)]
    g += ["]", "def heapSites : List HeapSite := ["]
    g += ["  ⟨%s, %s, %d, %s⟩%s" % (q(f), q(n), ln, bl(sp), "," if i + 1 < len(heap_sites) else "") for i, (f, n, ln, sp) in enumerate(heap_sites)]
    g += ["]", "", "end SteelVerif.C16", ""]
    out = os.path.join(VERIF, "lean/SteelVerif/C16/GenLocksTable.lean")
    new = "\n".join(g)
    if not os.path.exists(out) or open(out).read() != new:
        open(out, "w").write(new)
    os.makedirs(os.path.join(VERIF, ".build/C16"), exist_ok=True)
    json.dump({"stoppers": [[f, n] for f, n, _, _ in stoppers], "held_at_spin": [list(h) for h in held], "mutexes": mutexes,
               "lock_sites": [list(s) for s in sites], "heap_sites": [list(s) for s in heap_sites]},
              open(os.path.join(VERIF, ".build/C16/locks.json"), "w"))
    print("c16_locks: stoppers=%s held_at_spin=%s mutexes=%s lock_sites=%d heap_sites=%d (outside safepoint: %d)" % (
        [n for _, n, _, _ in stoppers], [(h[1], h[3]) for h in held], mutexes, len(sites), len(heap_sites), sum(1 for s in heap_sites if not s[3])))
    return 0


if __name__ == "__main__":
    sys.exit(main())
