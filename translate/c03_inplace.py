#!/usr/bin/env python3
"""C03 translator: extract from /repo every primitive that can mutate one of its arguments in place and
write lean/SteelVerif/C03/GenInPlace.lean (regenerated on every run).

Extracted per function of primitives/{lists,vectors,hashmaps,hashsets,strings}.rs, values/structs.rs:
  * the Steel name (`name = "..."` of the #[function]/#[native_mut]/... attribute, `register_value("..", CONST)`,
    or the MutFunc registration of steel_vm/primitives.rs),
  * whether it is registered in a module (reachable from Steel),
  * which uniqueness tests it performs (Gc::get_mut / Gc::make_mut / Gc::try_unwrap / Gc::strong_count), or whether it
    hands a `&mut` list to im-lists (`cons_mut`, `append_mut`, `rest_mut`, `push_back`, consuming `reverse`), whose
    PointerFamily is values/lists.rs::GcPointerType (get_mut / make_mut / try_unwrap / strong_count of Gc again),
  * whether it steals arguments from the stack slots (`mem::take` / `mem::replace`),
  * whether it has an arm for a mutable container (MutableVector: mutation is the specified behaviour there).
Also extracted: what Gc::get_mut / make_mut / try_unwrap / strong_count delegate to (gc.rs), which type `Shared` is
under the features the harness builds with, and which predicate steel-rc's get_mut / make_mut test.

The classification table below is the reviewed part: a function that is extracted but not listed is emitted as
`.unclassified` and the obligation `all_classified` (by `decide`) fails.
Prints one JSON line (the extraction) on stdout.
"""
import json
import os
import re
import sys

VERIF = os.path.dirname(os.path.dirname(os.path.abspath(__file__)))
sys.path.insert(0, VERIF)
REPO = sys.argv[1] if len(sys.argv) > 1 else "/repo"
OUT = sys.argv[2] if len(sys.argv) > 2 else os.path.join(VERIF, "lean/SteelVerif/C03/GenInPlace.lean")
CORE = os.path.join(REPO, "crates/steel-core/src")
FILES = ["primitives/lists.rs", "primitives/vectors.rs", "primitives/hashmaps.rs", "primitives/hashsets.rs",
         "primitives/strings.rs", "values/structs.rs"]

# reviewed classification: rust function name -> class
#   fastPath        in-place update of an immutable value guarded by a uniqueness test (the subject of C03)
#   libPath         hands the argument slot to im-lists, which tests uniqueness itself (through GcPointerType)
#   steals          only moves its arguments out of the stack slots; no shared object is written
#   mutableByDesign writes a mutable container (vector / box / mutable struct): aliasing is specified to be visible
#   shareOnly       uses the count to decide whether to SHARE a buffer, never writes it
CLASSES = {
    # hash maps
    "hash_insert": "fastPath", "hash_remove": "fastPath", "clear": "fastPath", "hm_union": "fastPath",
    # hash sets
    "hs_insert": "fastPath", "hashset_clear": "fastPath",
    # immutable vectors
    "immutable_vector_rest": "fastPath", "immutable_vector_push": "fastPath", "vector_push": "fastPath",
    "immutable_vector_push_front": "fastPath", "immutable_vector_set": "fastPath",
    "immutable_vector_pop_back": "fastPath", "immutable_vector_take": "fastPath", "immutable_vector_drop": "fastPath",
    # strings
    "string_push": "fastPath", "string_to_uninterned_symbol": "shareOnly",
    # structs
    "struct_update_primitive": "fastPath",
    # lists: the stack slot is handed to im-lists
    "cons": "libPath", "reverse": "libPath", "cdr": "libPath", "cdr_no_check": "libPath", "rest": "libPath",
    "append": "libPath", "push_back": "libPath",
    "new_const": "steals",
}
# tests of cons_mut / append_mut / rest_mut / push_back / reverse in im-lists 0.12 (unrolled.rs): make_mut and get_mut of
# the PointerFamily plus the separate count of the element buffer (AtomicSharedVector::is_unique / ensure_unique)
LIB_CALLS = ["cons_mut", "append_mut", "rest_mut", "cdr_mut", "push_back", ".reverse()", "pop_front"]


def strip_comments(text):
    text = re.sub(r"/\*.*?\*/", "", text, flags=re.S)
    out = []
    for line in text.split("\n"):
        if line.lstrip().startswith("//"):
            out.append("")
        else:
            out.append(re.sub(r"\s//[^\n\"]*$", "", line))
    return "\n".join(out)


def functions(path):
    """yield (name, attrs_text, signature, body) of every fn of a file (comments removed, braces matched)"""
    raw = open(path).read()
    text = strip_comments(raw)
    for m in re.finditer(r"(?m)^[ \t]*(?:pub(?:\([a-z]+\))?\s+)?(?:unsafe\s+)?fn\s+(\w+)\s*(?:<[^>{]*>)?\s*\(", text):
        name = m.group(1)
        # signature up to the opening brace
        i = m.end()
        depth = 1
        while i < len(text) and depth:
            depth += {"(": 1, ")": -1}.get(text[i], 0)
            i += 1
        j = text.find("{", i)
        semi = text.find(";", i)
        if j < 0 or (0 <= semi < j):
            continue
        sig = text[m.start():j]
        k, depth = j + 1, 1
        while k < len(text) and depth:
            depth += {"{": 1, "}": -1}.get(text[k], 0)
            k += 1
        body = text[j:k]
        # attributes: the lines directly above (skipping blank lines that were comments)
        head = text[:m.start()].rstrip("\n").split("\n")
        attrs = []
        while head and (head[-1].strip() == "" or head[-1].lstrip().startswith("#[") or head[-1].strip().endswith(")]")
                        or (attrs and not head[-1].rstrip().endswith(("}", ";")) and "#[" in "".join(head[-4:]))):
            line = head.pop()
            if line.strip():
                attrs.append(line)
            if len(attrs) > 12:
                break
        yield name, "\n".join(reversed(attrs)), sig, body


def main():
    prims = []
    all_src = {}
    for rel in FILES:
        path = os.path.join(CORE, rel)
        if not os.path.exists(path):
            sys.exit("c03_inplace: %s not found" % rel)
        all_src[rel] = strip_comments(open(path).read())
    reg_src = "\n".join(all_src.values()) + strip_comments(open(os.path.join(CORE, "steel_vm/primitives.rs")).read())
    for rel in FILES:
        in_tests = False
        for name, attrs, sig, body in functions(os.path.join(CORE, rel)):
            if name.endswith("_test") or name.startswith("test_") or "#[test]" in attrs:
                continue
            tests = []
            for pat, t in ((r"Gc::get_mut\(", "getMut"), (r"Gc::make_mut\(|\.make_mut\(", "makeMut"),
                           (r"Gc::try_unwrap\(|\.try_unwrap\(", "tryUnwrap"), (r"strong_count\(", "strongCount")):
                if re.search(pat, body):
                    tests.append(t)
            mut_param = bool(re.search(r"&mut\s+SteelVal\b|&mut\s+\[SteelVal\]", sig))
            steals = bool(re.search(r"mem::(take|replace|swap)\(", body))
            lib = [c for c in LIB_CALLS if c in body] if mut_param or steals else []
            if not (tests or mut_param):
                continue
            if rel == "values/structs.rs" and not tests:
                continue
            m = re.search(r'name\s*=\s*"([^"]+)"', attrs)
            steel = m.group(1) if m else ""
            const = name.upper() + "_DEFINITION"
            registered = bool(re.search(r"register_native_fn_definition\(\s*(?:\w+::)*%s\s*\)" % re.escape(const), reg_src))
            if not steel:
                # register_value("name", ...CONST) with CONST => fn in a macro table, or MutFunc(fn)
                mm = re.search(r"(\w+)\s*=>\s*%s\b" % re.escape(name), reg_src)
                if mm:
                    m2 = re.search(r'register_value\(\s*"([^"]+)"\s*,\s*(?:\w+::)*%s\s*\)' % re.escape(mm.group(1)), reg_src)
                    if m2:
                        steel, registered = m2.group(1), True
                m3 = re.search(r'"([^"]+)"\s*,\s*SteelVal::MutFunc\(\s*%s\s*\)' % re.escape(name), reg_src)
                if m3:
                    steel, registered = m3.group(1), True
            if steel and not registered:
                # the attribute macro derives the constant from the function name
                registered = bool(re.search(r"\b%s\b" % re.escape(const), reg_src.replace("pub const", "")))
            prims.append({"rust": name, "steel": steel, "file": rel, "tests": tests, "lib": lib, "steals": steals,
                          "mutParam": mut_param, "mutableArm": "MutableVector" in body, "registered": registered,
                          "todo": "todo!()" in body,
                          "cls": CLASSES.get(name, "unclassified")})
    if len(prims) < 10:
        sys.exit("c03_inplace: only %d functions extracted: the sources no longer look as expected" % len(prims))

    # Gc delegation and the Shared type
    gc = strip_comments(open(os.path.join(CORE, "gc.rs")).read())
    deleg = {}
    for meth in ("get_mut", "make_mut", "try_unwrap", "strong_count"):
        m = re.search(r"pub fn %s\([^)]*\)[^{]*\{\s*(.*?)\n\s*\}" % meth, gc, re.S)
        if not m:
            sys.exit("c03_inplace: Gc::%s not found" % meth)
        m2 = re.search(r"Shared::(\w+)\(", m.group(1))
        deleg[meth] = m2.group(1) if m2 else "?"
    m = re.search(r'#\[cfg\(all\(feature = "sync", feature = "biased", not\(feature = "triomphe"\)\)\)\]\s*pub type Shared<T> = ([\w:]+)<T>;', gc)
    shared = m.group(1) if m else "?"
    cargo = open(os.path.join(VERIF, "harness/Cargo.toml")).read()
    feats = re.search(r'steel-core\s*=\s*\{[^}]*features\s*=\s*\[([^\]]*)\]', cargo)
    feats = re.findall(r'"([^"]+)"', feats.group(1)) if feats else []
    rc = strip_comments(open(os.path.join(REPO, "crates/steel-rc/src/lib.rs")).read())
    rc_tests = {}
    for meth in ("get_mut", "make_mut"):
        m = re.search(r"pub fn %s\(this: &mut Self\)[^{]*\{(.*?)\n    \}" % meth, rc, re.S)
        if not m:
            sys.exit("c03_inplace: BiasedRc::%s not found" % meth)
        rc_tests[meth] = "has_unique_ref" if "has_unique_ref()" in m.group(1) else "?"
    weak = bool(re.search(r"\bstruct\s+Weak\b|\bdowngrade\b", rc))
    # PointerFamily of im-lists
    vl = strip_comments(open(os.path.join(CORE, "values/lists.rs")).read())
    fam = {}
    for meth in ("get_mut", "make_mut", "try_unwrap", "strong_count"):
        m = re.search(r"fn %s<[^{]*\{\s*(.*?)\s*\}" % meth, vl, re.S)
        fam[meth] = ("Gc::" + meth) if (m and ("Gc::" + meth) in m.group(1)) else "?"

    from gen.alias03 import STEEL_PRIMS
    by_steel = {}
    for op, names in STEEL_PRIMS.items():
        for n in names:
            by_steel.setdefault(n, []).append(op)
    # directed corpus cases count as exercise too (e.g. #%struct-update, which has no surface syntax)
    corpus_dir = os.path.join(VERIF, "corpus", "C03")
    corpus_text = ""
    if os.path.isdir(corpus_dir):
        for fn in sorted(os.listdir(corpus_dir)):
            corpus_text += open(os.path.join(corpus_dir, fn)).read()
    for p in prims:
        ex = list(by_steel.get(p["steel"], []))
        if p["steel"] and re.search(r"\(%s[\s)]" % re.escape(p["steel"]), corpus_text):
            ex.append("corpus")
        p["exercisedBy"] = ex

    def lstr(xs):
        return "[" + ", ".join('"%s"' % x for x in xs) + "]"
    lines = ["/- GENERATED by translate/c03_inplace.py from /repo on every run — do not edit. -/",
             "namespace SteelVerif.C03.GenInPlace", "",
             "inductive Class where", "  | fastPath | libPath | steals | mutableByDesign | shareOnly | unclassified",
             "deriving DecidableEq, Repr", "",
             "structure Prim where", "  rust : String", "  steel : String", "  file : String",
             "  tests : List String      -- uniqueness tests in the body: getMut / makeMut / tryUnwrap / strongCount",
             "  lib : List String        -- im-lists operations given the argument slot",
             "  steals : Bool            -- mem::take / mem::replace / mem::swap on arguments",
             "  registered : Bool        -- reachable from Steel",
             "  cls : Class", "  exercisedBy : List String -- operations of gen/alias03.py (or \"corpus\") that call it",
             "deriving Repr", "", "def prims : List Prim := ["]
    for i, p in enumerate(prims):
        lines.append('  ⟨"%s", "%s", "%s", %s, %s, %s, %s, .%s, %s⟩%s' % (
            p["rust"], p["steel"], p["file"], lstr(p["tests"]), lstr(p["lib"]), str(p["steals"]).lower(),
            str(p["registered"]).lower(), p["cls"], lstr(p["exercisedBy"]), "," if i + 1 < len(prims) else ""))
    lines += ["]", "",
              "/-- what `Gc::get_mut` / `make_mut` / `try_unwrap` / `strong_count` call on `Shared` (gc.rs) -/",
              "def gcDelegates : List (String × String) := [" + ", ".join('("%s", "%s")' % kv for kv in sorted(deleg.items())) + "]",
              "/-- `Shared` under the features the harness is built with -/",
              'def sharedType : String := "%s"' % shared,
              "def harnessFeatures : List String := " + lstr(feats),
              "/-- the predicate behind `BiasedRc::get_mut` / `make_mut` (steel-rc) -/",
              "def rcTests : List (String × String) := [" + ", ".join('("%s", "%s")' % kv for kv in sorted(rc_tests.items())) + "]",
              "/-- steel-rc declares weak references -/",
              "def rcHasWeak : Bool := %s" % str(weak).lower(),
              "/-- values/lists.rs: the PointerFamily im-lists is instantiated with -/",
              "def listFamily : List (String × String) := [" + ", ".join('("%s", "%s")' % kv for kv in sorted(fam.items())) + "]",
              "",
              "/-- every extracted function has been classified (a new one makes this fail) -/",
              "theorem all_classified : prims.all (fun p => decide (p.cls ≠ .unclassified)) = true := by decide",
              "",
              "/-- every registered in-place fast path (and every list primitive that hands its slot to im-lists) is called by",
              "some operation of the generator or by a directed corpus case -/",
              "theorem fast_paths_exercised :",
              "    prims.all (fun p => !(decide (p.cls = .fastPath) || decide (p.cls = .libPath)) || !p.registered",
              "      || !p.exercisedBy.isEmpty) = true := by decide",
              "",
              "/-- the uniqueness test of every fast path is `Gc::get_mut` / `Gc::make_mut`, which are `Shared::get_mut` /",
              "`Shared::make_mut` of `steel_rc::BiasedRc`, which test `has_unique_ref` (the predicate of C05: true only for the",
              "sole strong reference; there are no weak references); the list primitives reach the same functions through",
              "`GcPointerType`.  No fast path decides on `strong_count` (which may under-count across threads). -/",
              "theorem tests_are_strong_count_one :",
              "    prims.all (fun p => !decide (p.cls = .fastPath) || (p.tests.all (fun t => t == \"getMut\" || t == \"makeMut\")",
              "      && !p.tests.isEmpty)) = true",
              '    ∧ gcDelegates = [("get_mut", "get_mut"), ("make_mut", "make_mut"), ("strong_count", "strong_count"), ("try_unwrap", "try_unwrap")]',
              '    ∧ sharedType = "steel_rc::BiasedRc" ∧ harnessFeatures.contains "biased" = true ∧ harnessFeatures.contains "sync" = true',
              '    ∧ rcTests = [("get_mut", "has_unique_ref"), ("make_mut", "has_unique_ref")] ∧ rcHasWeak = false',
              '    ∧ listFamily = [("get_mut", "Gc::get_mut"), ("make_mut", "Gc::make_mut"), ("strong_count", "Gc::strong_count"), ("try_unwrap", "Gc::try_unwrap")] := by',
              "  decide",
              "", "end SteelVerif.C03.GenInPlace", ""]
    new = "\n".join(lines)
    old = open(OUT).read() if os.path.exists(OUT) else None
    if old != new:
        with open(OUT, "w") as f:
            f.write(new)
    print(json.dumps({"prims": prims, "gc": deleg, "shared": shared, "features": feats, "rc": rc_tests, "weak": weak,
                      "listFamily": fam, "changed": old != new}))


if __name__ == "__main__":
    main()
