#!/usr/bin/env python3
"""C03 translator: extract from /repo every primitive that can mutate one of its arguments in place and
write lean/SteelVerif/C03/GenInPlace.lean (regenerated on every run).

Extracted per function of primitives/{lists,vectors,hashmaps,hashsets,strings}.rs, values/structs.rs:
  * the Steel name (`name = "..."` of the #[function]/#[native_mut]/... attribute, `register_value("..", CONST)`,
    or the MutFunc registration of steel_vm/primitives.rs),
  * whether it is registered in a module (reachable from Steel),
  * which uniqueness tests it performs (Gc::get_mut / Gc::make_mut / Gc::try_unwrap / Gc::strong_count), or whether it
    hands a `&mut` list to im-lists (`cons_mut`, `append_mut`, `rest_mut`, `push_back`, consuming `reverse`), whose
    PointerFamily is values/lists.rs::GcPointerType (get_mut / make_mut / try_unwrap / strong_count of Gc again),
  * whether it steals arguments from the stack slots (`mem::take` / `mem::replace`),
  * whether it has an arm for a mutable container (MutableVector: mutation is the specified behaviour there).
Also extracted: what Gc::get_mut / make_mut / try_unwrap / strong_count delegate to (gc.rs), which type `Shared` is
under the features the harness builds with, and which predicate steel-rc's get_mut / make_mut test.

The classification table below is the reviewed part: a function that is extracted but not listed is emitted as
`.unclassified` and the obligation `all_classified` (by `decide`) fails.
Prints one JSON line (the extraction) on stdout.
"""
import json
import os
import re
import sys

VERIF = os.path.dirname(os.path.dirname(os.path.abspath(__file__)))
sys.path.insert(0, VERIF)
REPO = sys.argv[1] if len(sys.argv) > 1 else "/repo"
OUT = sys.argv[2] if len(sys.argv) > 2 else os.path.join(VERIF, "lean/SteelVerif/C03/GenInPlace.lean")
CORE = os.path.join(REPO, "crates/steel-core/src")
FILES = ["primitives/lists.rs", "primitives/vectors.rs", "primitives/hashmaps.rs", "primitives/hashsets.rs",
         "primitives/strings.rs", "values/structs.rs"]

# reviewed classification: rust function name -> class
#   fastPath        in-place update of an immutable value guarded by a uniqueness test (the subject of C03)
#   libPath         hands the argument slot to im-lists, which tests uniqueness itself (through GcPointerType)
#   steals          only moves its arguments out of the stack slots; no shared object is written
#   mutableByDesign writes a mutable container (vector / box / mutable struct): aliasing is specified to be visible
#   shareOnly       uses the count to decide whether to SHARE a buffer, never writes it
CLASSES = {
    # hash maps
    "hash_insert": "fastPath", "hash_remove": "fastPath", "clear": "fastPath", "hm_union": "fastPath",
    # hash sets
    "hs_insert": "fastPath", "hashset_clear": "fastPath",
    # immutable vectors
    "immutable_vector_rest": "fastPath", "immutable_vector_push": "fastPath", "vector_push": "fastPath",
    "immutable_vector_push_front": "fastPath", "immutable_vector_set": "fastPath",
    "immutable_vector_pop_back": "fastPath", "immutable_vector_take": "fastPath", "immutable_vector_drop": "fastPath",
    # strings
    "string_push": "fastPath", "string_to_uninterned_symbol": "shareOnly",
    # structs
    "struct_update_primitive": "fastPath",
    # lists: the stack slot is handed to im-lists
    "cons": "libPath", "reverse": "libPath", "cdr": "libPath", "cdr_no_check": "libPath", "rest": "libPath",
    "append": "libPath", "push_back": "libPath",
    "new_const": "steals",
}
# tests of cons_mut / append_mut / rest_mut / push_back / reverse in im-lists 0.12 (unrolled.rs): make_mut and get_mut of
# the PointerFamily plus the separate count of the element buffer (AtomicSharedVector::is_unique / ensure_unique)
LIB_CALLS = ["cons_mut", "append_mut", "rest_mut", "cdr_mut", "push_back", ".reverse()", "pop_front"]


def strip_comments(text):
    text = re.sub(r"/\*.*?\*/", "", text, flags=re.S)
    out = []
    for line in text.split("\n"):
        if line.lstrip().startswith("//"):
            out.append("")
        else:
            out.append(re.sub(r"\s//[^\n\"]*$", "", line))
    return "\n".join(out)


def functions(path):
    """yield (name, attrs_text, signature, body) of every fn of a file (comments removed, braces matched)"""
    raw = open(path).read()
    text = strip_comments(raw)
    for m in re.finditer(r"(?m)^[ \t]*(?:pub(?:\([a-z]+\))?\s+)?(?:unsafe\s+)?fn\s+(\w+)\s*(?:<[^>{]*>)?\s*\(", text):
        name = m.group(1)
        # signature up to the opening brace
        i = m.end()
        depth = 1
        while i < len(text) and depth:
            depth += {"(": 1, ")": -1}.get(text[i], 0)
            i += 1
        j = text.find("{", i)
        semi = text.find(";", i)
        if j < 0 or (0 <= semi < j):
            continue
        sig = text[m.start():j]
        k, depth = j + 1, 1
        while k < len(text) and depth:
            depth += {"{": 1, "}": -1}.get(text[k], 0)
            k += 1
        body = text[j:k]
        # attributes: the lines directly above (skipping blank lines that were comments)
        head = text[:m.start()].rstrip("\n").split("\n")
        attrs = []
        while head and (head[-1].strip() == "" or head[-1].lstrip().startswith("#[") or head[-1].strip().endswith(")]")
                        or (attrs and not head[-1].rstrip().endswith(("}", ";")) and "#[" in "".join(head[-4:]))):
            line = head.pop()
            if line.strip():
                attrs.append(line)
            if len(attrs) > 12:
                break
        yield name, "\n".join(reversed(attrs)), sig, body


# ---------------------------------------------------------------------------------------------
# which ARGUMENT does the uniqueness test / the im-lists call reach?
# The variable handed to Gc::get_mut / Gc::make_mut / cons_mut / rest_mut / append_mut / push_back / reverse is traced
# back through the pattern that binds it (if-let, let-else, match arm; tuples position by position; one `let x = e;` hop)
# to a parameter of the function (`p`, `&mut p`, mem::take(p), mem::replace(p, ..)) or to an element of the argument
# slice (`args[i]`, `&mut args[i]`, args.split_first_mut() -> 0).  A site that cannot be traced is an error: the
# sources no longer look as expected.
# ---------------------------------------------------------------------------------------------
def split_top(s):
    """split at commas of depth 0"""
    out, cur, depth = [], "", 0
    for ch in s:
        if ch in "([{":
            depth += 1
        elif ch in ")]}":
            depth -= 1
        if ch == "," and depth == 0:
            out.append(cur)
            cur = ""
        else:
            cur += ch
    if cur.strip():
        out.append(cur)
    return [x.strip() for x in out]


def strip_parens(s):
    s = s.strip()
    while s.startswith("(") and s.endswith(")"):
        depth = 0
        for i, ch in enumerate(s):
            depth += {"(": 1, ")": -1}.get(ch, 0)
            if depth == 0 and i < len(s) - 1:
                return s
        s = s[1:-1].strip()
    return s


def params_of(sig):
    start = re.search(r"\bfn\s+\w+\s*(?:<[^>{]*>)?\s*\(", sig).end()
    inner = sig[start:sig.rindex(")")]
    res = []
    for part in split_top(inner):
        if ":" not in part:
            continue
        name, ty = part.split(":", 1)
        res.append((name.replace("mut ", "").strip(), ty.strip()))
    return res


def pattern_start(body, pos):
    """start of the pattern that contains position `pos`: after the nearest `if let` / `let` / `{` / `=>` / `,` of depth 0
    going backwards"""
    depth = 0
    i = pos
    while i > 0:
        ch = body[i]
        if ch in ")]":
            depth += 1
        elif ch in "([":
            if depth == 0:
                # an opening bracket we are inside of: keep going (it belongs to the pattern)
                pass
            else:
                depth -= 1
        elif depth == 0 and ch in "{;":
            return i + 1
        elif depth == 0 and body[i - 1:i + 1] == "=>":
            return i + 1
        if body[max(0, i - 3):i + 1] == "let " and depth == 0:
            return i + 1
        i -= 1
    return 0


def enclosing_match(body, pos):
    """scrutinee of the `match E {` whose arms contain position `pos`"""
    depth = 0
    i = pos
    while i > 0:
        ch = body[i]
        if ch == "}":
            depth += 1
        elif ch == "{":
            if depth == 0:
                head = body[:i]
                m = list(re.finditer(r"\bmatch\b", head))
                if m:
                    cand = head[m[-1].end():].strip()
                    # the text between `match` and `{` must be brace-free to be the scrutinee of THIS brace
                    if "{" not in cand and "}" not in cand and "=>" not in cand:
                        return cand
                # not a match brace (a block, an if-let body): continue outwards
            else:
                depth -= 1
        i -= 1
    return None


def bound_from(body, var, use_pos, hops=0):
    """expression(s) the variable `var` (used at `use_pos`) is bound from: list of candidate scrutinee components"""
    if hops > 4:
        return []
    pre = body[:use_pos]
    # 1. nearest preceding occurrence of `var` as a binder inside a pattern: `var)` / `var,` preceded by `(` `mut ` `ref mut `
    best = None
    for m in re.finditer(r"(?:\(|,\s*|ref\s+mut\s+|mut\s+)%s\s*(?=[),])" % re.escape(var), pre):
        best = m
    let = None
    for m in re.finditer(r"\blet\s+(?:mut\s+)?%s\s*(?::[^=;]*)?=\s*" % re.escape(var), pre):
        let = m
    if let is not None and (best is None or let.start() > best.start()):
        # `let var = EXPR;`  (EXPR may itself be an `if let PAT = E { x } else ..`)
        j = let.end()
        depth = 0
        k = j
        while k < len(body):
            ch = body[k]
            depth += {"(": 1, "{": 1, "[": 1, ")": -1, "}": -1, "]": -1}.get(ch, 0)
            if ch == ";" and depth == 0:
                break
            k += 1
        expr = body[j:k]
        m2 = re.match(r"\s*if\s+let\s+(.*?)\s=\s(.*?)\s*\{\s*(\w+)\s*\}", expr, re.S)
        if m2:
            return component(body, j + m2.start(1), m2.group(1), m2.group(2), m2.group(3), hops)
        return [expr.strip()]
    if best is None:
        return []
    vpos = best.end() - 1
    ps = pattern_start(body, best.start())
    # end of the pattern: `=>` (match arm) or ` = ` (if let / let else)
    rest = body[ps:]
    depth = 0
    end = None
    kind = None
    for k, ch in enumerate(rest):
        depth += {"(": 1, "[": 1, ")": -1, "]": -1}.get(ch, 0)
        if depth == 0 and rest[k:k + 2] == "=>":
            end, kind = k, "arm"
            break
        if depth == 0 and ch == "=" and rest[k:k + 2] != "==" and k > 0 and rest[k - 1] not in "!<>=":
            end, kind = k, "let"
            break
    if end is None:
        return []
    pat = rest[:end].strip()
    if pat.startswith("if let"):
        pat = pat[6:].strip()
    if kind == "let":
        after = rest[end + 1:]
        m3 = re.match(r"\s*(.*?)\s*(?:\{|else\b|;)", after, re.S)
        scrut = m3.group(1) if m3 else ""
    else:
        scrut = enclosing_match(body, ps) or ""
    return component(body, ps, pat, scrut, var, hops)


def component(body, pos, pat, scrut, var, hops):
    pat = pat.strip()
    scrut = scrut.strip()
    # Some((a, b)) = x.split_first_mut(): position inside the pair
    m = re.match(r"Some\((.*)\)$", pat, re.S)
    if m and "split_first_mut" in scrut:
        parts = split_top(strip_parens(m.group(1)))
        for i, part in enumerate(parts):
            if re.search(r"\b%s\b" % re.escape(var), part):
                return ["#first" if i == 0 else "#rest"]
    pp = strip_parens(pat)
    sp = strip_parens(scrut)
    pparts = split_top(pp) if pp != pat or pat.startswith("(") else [pat]
    sparts = split_top(sp) if sp != scrut or scrut.startswith("(") else [scrut]
    if len(pparts) > 1 and len(pparts) == len(sparts):
        for part, s in zip(pparts, sparts):
            if re.search(r"\b%s\b" % re.escape(var), part):
                return resolve_expr(body, pos, s, hops)
        return []
    return resolve_expr(body, pos, scrut, hops)


def resolve_expr(body, pos, expr, hops):
    expr = expr.strip()
    m = re.fullmatch(r"(?:&mut\s+)?(\w+)", expr)
    if m:
        # a plain identifier: a parameter, or a local bound earlier
        return [expr] + bound_from(body, m.group(1), pos, hops + 1)
    return [expr]


def arg_index(exprs, params):
    """map candidate expressions to an argument position"""
    names = [n for n, _ in params]
    slice_param = next((n for n, ty in params if re.match(r"&mut\s*\[SteelVal\]", ty)), None)
    for e in exprs:
        if e == "#first":
            return 0
        m = re.search(r"(?:&mut\s+)?(\w+)\[(\d+)\]", e)
        if m and m.group(1) == slice_param:
            return int(m.group(2))
        if slice_param and "split_first_mut" in e:
            return 0
        for i, n in enumerate(names):
            if re.fullmatch(r"(?:&mut\s+)?%s" % re.escape(n), e) or \
               re.search(r"mem::(?:take|replace)\(\s*%s\b" % re.escape(n), e):
                return i
    return None


SITES = [(r"Gc::get_mut\(\s*(\w+)\s*\)", "test"), (r"Gc::make_mut\(\s*&mut\s+(\w+)", "test"),
         (r"\b(\w+)\.(?:cons_mut|rest_mut|append_mut|push_back)\(", "lib"), (r"\b(\w+)\.reverse\(\)", "lib")]


def in_place_args(sig, body, cls):
    params = params_of(sig)
    want = "test" if cls == "fastPath" else "lib"
    found, failed = [], []
    for pat, kind in SITES:
        if kind != want:
            continue
        for m in re.finditer(pat, body):
            var = m.group(1)
            exprs = bound_from(body, var, m.start())
            idx = arg_index(exprs, params)
            if idx is None:
                failed.append((var, m.group(0), exprs[:3]))
            elif idx not in found:
                found.append(idx)
    return sorted(found), failed


def main():
    prims = []
    untraced = []
    all_src = {}
    for rel in FILES:
        path = os.path.join(CORE, rel)
        if not os.path.exists(path):
            sys.exit("c03_inplace: %s not found" % rel)
        all_src[rel] = strip_comments(open(path).read())
    reg_src = "\n".join(all_src.values()) + strip_comments(open(os.path.join(CORE, "steel_vm/primitives.rs")).read())
    for rel in FILES:
        in_tests = False
        for name, attrs, sig, body in functions(os.path.join(CORE, rel)):
            if name.endswith("_test") or name.startswith("test_") or "#[test]" in attrs:
                continue
            tests = []
            for pat, t in ((r"Gc::get_mut\(", "getMut"), (r"Gc::make_mut\(|\.make_mut\(", "makeMut"),
                           (r"Gc::try_unwrap\(|\.try_unwrap\(", "tryUnwrap"), (r"strong_count\(", "strongCount")):
                if re.search(pat, body):
                    tests.append(t)
            mut_param = bool(re.search(r"&mut\s+SteelVal\b|&mut\s+\[SteelVal\]", sig))
            steals = bool(re.search(r"mem::(take|replace|swap)\(", body))
            lib = [c for c in LIB_CALLS if c in body] if mut_param or steals else []
            if not (tests or mut_param):
                continue
            if rel == "values/structs.rs" and not tests:
                continue
            m = re.search(r'name\s*=\s*"([^"]+)"', attrs)
            steel = m.group(1) if m else ""
            const = name.upper() + "_DEFINITION"
            registered = bool(re.search(r"register_native_fn_definition\(\s*(?:\w+::)*%s\s*\)" % re.escape(const), reg_src))
            if not steel:
                # register_value("name", ...CONST) with CONST => fn in a macro table, or MutFunc(fn)
                mm = re.search(r"(\w+)\s*=>\s*%s\b" % re.escape(name), reg_src)
                if mm:
                    m2 = re.search(r'register_value\(\s*"([^"]+)"\s*,\s*(?:\w+::)*%s\s*\)' % re.escape(mm.group(1)), reg_src)
                    if m2:
                        steel, registered = m2.group(1), True
                m3 = re.search(r'"([^"]+)"\s*,\s*SteelVal::MutFunc\(\s*%s\s*\)' % re.escape(name), reg_src)
                if m3:
                    steel, registered = m3.group(1), True
            if steel and not registered:
                # the attribute macro derives the constant from the function name
                registered = bool(re.search(r"\b%s\b" % re.escape(const), reg_src.replace("pub const", "")))
            cls = CLASSES.get(name, "unclassified")
            ipa, ipa_failed = in_place_args(sig, body, cls) if cls in ("fastPath", "libPath") else ([], [])
            if cls in ("fastPath", "libPath") and (ipa_failed or not ipa):
                untraced.append((name, ipa_failed))
            prims.append({"rust": name, "steel": steel, "file": rel, "tests": tests, "lib": lib, "steals": steals,
                          "inPlaceArgs": ipa,
                          "mutParam": mut_param, "mutableArm": "MutableVector" in body, "registered": registered,
                          "todo": "todo!()" in body,
                          "cls": CLASSES.get(name, "unclassified")})
    if untraced:
        sys.exit("c03_inplace: cannot trace the uniqueness test / im-lists call to an argument in: %s" % untraced)
    if len(prims) < 10:
        sys.exit("c03_inplace: only %d functions extracted: the sources no longer look as expected" % len(prims))

    # Gc delegation and the Shared type
    gc = strip_comments(open(os.path.join(CORE, "gc.rs")).read())
    deleg = {}
    for meth in ("get_mut", "make_mut", "try_unwrap", "strong_count"):
        m = re.search(r"pub fn %s\([^)]*\)[^{]*\{\s*(.*?)\n\s*\}" % meth, gc, re.S)
        if not m:
            sys.exit("c03_inplace: Gc::%s not found" % meth)
        m2 = re.search(r"Shared::(\w+)\(", m.group(1))
        deleg[meth] = m2.group(1) if m2 else "?"
    m = re.search(r'#\[cfg\(all\(feature = "sync", feature = "biased", not\(feature = "triomphe"\)\)\)\]\s*pub type Shared<T> = ([\w:]+)<T>;', gc)
    shared = m.group(1) if m else "?"
    cargo = open(os.path.join(VERIF, "harness/Cargo.toml")).read()
    feats = re.search(r'steel-core\s*=\s*\{[^}]*features\s*=\s*\[([^\]]*)\]', cargo)
    feats = re.findall(r'"([^"]+)"', feats.group(1)) if feats else []
    rc = strip_comments(open(os.path.join(REPO, "crates/steel-rc/src/lib.rs")).read())
    rc_tests = {}
    for meth in ("get_mut", "make_mut"):
        m = re.search(r"pub fn %s\(this: &mut Self\)[^{]*\{(.*?)\n    \}" % meth, rc, re.S)
        if not m:
            sys.exit("c03_inplace: BiasedRc::%s not found" % meth)
        rc_tests[meth] = "has_unique_ref" if "has_unique_ref()" in m.group(1) else "?"
    weak = bool(re.search(r"\bstruct\s+Weak\b|\bdowngrade\b", rc))
    # PointerFamily of im-lists
    vl = strip_comments(open(os.path.join(CORE, "values/lists.rs")).read())
    fam = {}
    for meth in ("get_mut", "make_mut", "try_unwrap", "strong_count"):
        m = re.search(r"fn %s<[^{]*\{\s*(.*?)\s*\}" % meth, vl, re.S)
        fam[meth] = ("Gc::" + meth) if (m and ("Gc::" + meth) in m.group(1)) else "?"

    from gen.alias03 import STEEL_PRIMS
    by_steel = {}
    for op, names in STEEL_PRIMS.items():
        for n in names:
            by_steel.setdefault(n, []).append(op)
    # directed corpus cases count as exercise too (e.g. #%struct-update, which has no surface syntax)
    corpus_dir = os.path.join(VERIF, "corpus", "C03")
    corpus_text = ""
    if os.path.isdir(corpus_dir):
        for fn in sorted(os.listdir(corpus_dir)):
            corpus_text += open(os.path.join(corpus_dir, fn)).read()
    for p in prims:
        ex = list(by_steel.get(p["steel"], []))
        if p["steel"] and re.search(r"\(%s[\s)]" % re.escape(p["steel"]), corpus_text):
            ex.append("corpus")
        p["exercisedBy"] = ex

    def lstr(xs):
        return "[" + ", ".join('"%s"' % x for x in xs) + "]"
    lines = ["/- GENERATED by translate/c03_inplace.py from /repo on every run — do not edit. -/",
             "import SteelVerif.C03.PrimTable",
             "namespace SteelVerif.C03.GenInPlace", "",
             "inductive Class where", "  | fastPath | libPath | steals | mutableByDesign | shareOnly | unclassified",
             "deriving DecidableEq, Repr", "",
             "structure Prim where", "  rust : String", "  steel : String", "  file : String",
             "  tests : List String      -- uniqueness tests in the body: getMut / makeMut / tryUnwrap / strongCount",
             "  lib : List String        -- im-lists operations given the argument slot",
             "  steals : Bool            -- mem::take / mem::replace / mem::swap on arguments",
             "  inPlaceArgs : List Nat   -- argument positions whose slot reaches the uniqueness test / the im-lists call",
             "  registered : Bool        -- reachable from Steel",
             "  cls : Class", "  exercisedBy : List String -- operations of gen/alias03.py (or \"corpus\") that call it",
             "deriving Repr", "", "def prims : List Prim := ["]
    for i, p in enumerate(prims):
        lines.append('  ⟨"%s", "%s", "%s", %s, %s, %s, %s, %s, .%s, %s⟩%s' % (
            p["rust"], p["steel"], p["file"], lstr(p["tests"]), lstr(p["lib"]), str(p["steals"]).lower(),
            "[" + ", ".join(str(x) for x in p["inPlaceArgs"]) + "]",
            str(p["registered"]).lower(), p["cls"], lstr(p["exercisedBy"]), "," if i + 1 < len(prims) else ""))
    lines += ["]", "",
              "/-- what `Gc::get_mut` / `make_mut` / `try_unwrap` / `strong_count` call on `Shared` (gc.rs) -/",
              "def gcDelegates : List (String × String) := [" + ", ".join('("%s", "%s")' % kv for kv in sorted(deleg.items())) + "]",
              "/-- `Shared` under the features the harness is built with -/",
              'def sharedType : String := "%s"' % shared,
              "def harnessFeatures : List String := " + lstr(feats),
              "/-- the predicate behind `BiasedRc::get_mut` / `make_mut` (steel-rc) -/",
              "def rcTests : List (String × String) := [" + ", ".join('("%s", "%s")' % kv for kv in sorted(rc_tests.items())) + "]",
              "/-- steel-rc declares weak references -/",
              "def rcHasWeak : Bool := %s" % str(weak).lower(),
              "/-- values/lists.rs: the PointerFamily im-lists is instantiated with -/",
              "def listFamily : List (String × String) := [" + ", ".join('("%s", "%s")' % kv for kv in sorted(fam.items())) + "]",
              "",
              "/-- every extracted function has been classified (a new one makes this fail) -/",
              "theorem all_classified : prims.all (fun p => decide (p.cls ≠ .unclassified)) = true := by decide",
              "",
              "/-- every registered in-place fast path (and every list primitive that hands its slot to im-lists) is called by",
              "some operation of the generator or by a directed corpus case -/",
              "theorem fast_paths_exercised :",
              "    prims.all (fun p => !(decide (p.cls = .fastPath) || decide (p.cls = .libPath)) || !p.registered",
              "      || !p.exercisedBy.isEmpty) = true := by decide",
              "",
              "/-- the uniqueness test of every fast path is `Gc::get_mut` / `Gc::make_mut`, which are `Shared::get_mut` /",
              "`Shared::make_mut` of `steel_rc::BiasedRc`, which test `has_unique_ref` (the predicate of C05: true only for the",
              "sole strong reference; there are no weak references); the list primitives reach the same functions through",
              "`GcPointerType`.  No fast path decides on `strong_count` (which may under-count across threads). -/",
              "theorem tests_are_strong_count_one :",
              "    prims.all (fun p => !decide (p.cls = .fastPath) || (p.tests.all (fun t => t == \"getMut\" || t == \"makeMut\")",
              "      && !p.tests.isEmpty)) = true",
              '    ∧ gcDelegates = [("get_mut", "get_mut"), ("make_mut", "make_mut"), ("strong_count", "strong_count"), ("try_unwrap", "try_unwrap")]',
              '    ∧ sharedType = "steel_rc::BiasedRc" ∧ harnessFeatures.contains "biased" = true ∧ harnessFeatures.contains "sync" = true',
              '    ∧ rcTests = [("get_mut", "has_unique_ref"), ("make_mut", "has_unique_ref")] ∧ rcHasWeak = false',
              '    ∧ listFamily = [("get_mut", "Gc::get_mut"), ("make_mut", "Gc::make_mut"), ("strong_count", "Gc::strong_count"), ("try_unwrap", "Gc::try_unwrap")] := by',
              "  decide",
              "",
              "/-- the in-place argument of the source, per Steel name (registered fast paths and list primitives) -/",
              "def sourceArgs (steel : String) : List Nat :=",
              "  (prims.filter (fun p => p.steel == steel && p.registered && (decide (p.cls = .fastPath) || decide (p.cls = .libPath)))).flatMap (·.inPlaceArgs)",
              "",
              "/-- in-place arms of the source that the model does not have (`#%struct-update` has no operation in the model's",
              "table, a directed corpus case calls it) -/",
              'def unmodelledArms : List (String × Nat) := [("#%struct-update", 0)]',
              "",
              "/-- THE MODEL'S PRIMITIVE TABLE MATCHES THE SOURCE: (1) every operation of `PrimTable` that may update an argument",
              "in place (`PrimOp.inPlaceArg`, the only target `plan` ever gives to `Plan.upd`: `plan_upd_target`) names a Steel",
              "primitive of /repo whose uniqueness test (resp. im-lists call) is reached from exactly that argument's stack slot;",
              "(2) conversely every (primitive, argument) pair of the source is the in-place argument (or the alternative arm,",
              "`PrimOp.altArm`: the right operand of `hash-union`) of some operation of the model, or is listed in `unmodelledArms`; (3) an operation the model never updates in place names no in-place",
              "primitive of the source. -/",
              "theorem stolen_args_match_model :",
              "    PrimOp.all.all (fun p => match p.inPlaceArg with",
              "      | some j => p.steel != \"\" && (sourceArgs p.steel).contains j",
              "      | none => p.steel == \"\") = true",
              "    ∧ prims.all (fun q => !(q.registered && (decide (q.cls = .fastPath) || decide (q.cls = .libPath)) && q.steel != \"\")",
              "        || q.inPlaceArgs.all (fun j => unmodelledArms.contains (q.steel, j)",
              "             || PrimOp.all.any (fun p => p.steel == q.steel && (p.inPlaceArg == some j || p.altArm == some j)))) = true := by",
              "  decide",
              "", "end SteelVerif.C03.GenInPlace", ""]
    new = "\n".join(lines)
    old = open(OUT).read() if os.path.exists(OUT) else None
    if old != new:
        with open(OUT, "w") as f:
            f.write(new)
    print(json.dumps({"prims": prims, "gc": deleg, "shared": shared, "features": feats, "rc": rc_tests, "weak": weak,
                      "listFamily": fam, "changed": old != new}))


if __name__ == "__main__":
    main()
