#!/usr/bin/env python3
"""C13 translator obligation `bindings_cleared_before_match`.

The model M starts every expansion from EMPTY binding maps (`collect … {}` in Model.lean).  The code keeps three
thread-local maps (BINDINGS, BINDINGS_KIND, FALLBACK_BINDINGS) that `MacroCase::expand` re-uses; the model is
faithful only if each of them is cleared BEFORE `collect_bindings(` is called in that function (a clear after it
is skipped by every `?` exit in between: the bindings of a failed expansion would survive into the next one).

Prints one line `OK <json>` or `BROKEN <reason>`; exit code 0 / 1.  REPO may be overridden by the first argument.
"""
import json
import re
import sys

REPO = sys.argv[1] if len(sys.argv) > 1 else "/repo"
PATH = REPO + "/crates/steel-core/src/parser/expander.rs"


def body_of(src, start):
    """text of the brace block that begins at the first `{` after `start`"""
    i = src.index("{", start)
    depth, j = 0, i
    while j < len(src):
        if src[j] == "{":
            depth += 1
        elif src[j] == "}":
            depth -= 1
            if depth == 0:
                return src[i:j + 1]
        j += 1
    raise ValueError("unbalanced braces")


def main():
    try:
        src = open(PATH).read()
        src = re.sub(r"//[^\n]*", "", src)
        impl = src.index("impl MacroCase")
        m = re.search(r"fn\s+expand\s*\(", src[impl:])
        if not m:
            print("BROKEN MacroCase::expand not found")
            return 1
        fn = body_of(src, impl + m.start())
    except Exception as e:  # noqa
        print("BROKEN cannot read %s: %s" % (PATH, e))
        return 1
    collect = fn.find("collect_bindings(")
    if collect < 0:
        print("BROKEN no call of collect_bindings in MacroCase::expand")
        return 1
    out, bad = {}, []
    for var in ("bindings", "binding_kind", "fallback_bindings"):
        pos = [mm.start() for mm in re.finditer(r"\b%s\s*\.\s*clear\s*\(\s*\)" % var, fn)]
        out[var] = {"clears": len(pos), "before_collect": sum(1 for p in pos if p < collect)}
        if not any(p < collect for p in pos):
            bad.append(var)
    if bad:
        print("BROKEN not cleared before collect_bindings: %s %s" % (",".join(bad), json.dumps(out)))
        return 1
    print("OK " + json.dumps(out))
    return 0


if __name__ == "__main__":
    sys.exit(main())
