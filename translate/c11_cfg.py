#!/usr/bin/env python3
"""C11 translator: regenerate lean/SteelVerif/C11/GenCfg.lean from the Rust sources.

Extracted from crates/steel-core/src/rvals/cycles.rs (`RecursiveEqualityHandler`) and
crates/steel-core/src/rvals.rs (`impl Hash for SteelVal`, `SteelHashMap`, `SteelHashSet`):
  * how `visited` is keyed: `should_visit` takes (left, right) and inserts the pair, or takes one
    identity and is called twice joined by `&&` (defect K11a);
  * whether the immutable-vector arm `return false`s when the pair is not to be visited (K11a);
  * what the list short cut compares (storage+index of the first node only, or also the next pointer) and
    under which identity lists enter `visited` (K11j); whether the loop over the elements of two lists rejects
    on different discriminants (seeded defect m1);
  * which same-kind arms the worklist `match (left, right)` has (K11b: Rational, BigRational,
    Complex, ByteVector, BoxedFunction);
  * whether zero floats hash alike (K11c), whether hash maps / hash sets hash independently of the
    iteration order (K11d), whether the two vector kinds hash alike (K11e).
The result is the value `codeCfg : Cfg` of the model; `SteelVerif/C11/GenSound.lean` decides
`codeCfg.sound`, so a regression of any of these makes a proof obligation fail.

usage: c11_cfg.py [REPO] [OUT]   prints one JSON object (what was extracted) on stdout.
An extraction that no longer parses exits non-zero: that is a broken tie, not silence.
"""
import json
import os
import re
import sys

REPO = sys.argv[1] if len(sys.argv) > 1 else "/repo"
OUT = sys.argv[2] if len(sys.argv) > 2 else "/verif/lean/SteelVerif/C11/GenCfg.lean"


def die(msg):
    sys.stderr.write("c11_cfg: " + msg + "\n")
    sys.exit(2)


def strip_comments(s):
    return re.sub(r"//[^\n]*", "", s)


def block_after(s, start):
    """text of the `{...}` block that starts at the first `{` at or after index start."""
    i = s.find("{", start)
    if i < 0:
        die("no block after index %d" % start)
    depth = 0
    j = i
    while j < len(s):
        c = s[j]
        if c == "{":
            depth += 1
        elif c == "}":
            depth -= 1
            if depth == 0:
                return s[i:j + 1]
        elif c == '"':
            j += 1
            while j < len(s) and s[j] != '"':
                if s[j] == "\\":
                    j += 1
                j += 1
        j += 1
    die("unbalanced block")


def find(s, pat, what):
    m = re.search(pat, s)
    if not m:
        die("cannot find " + what)
    return m


def main():
    cyc = strip_comments(open(os.path.join(REPO, "crates/steel-core/src/rvals/cycles.rs")).read())
    rv = strip_comments(open(os.path.join(REPO, "crates/steel-core/src/rvals.rs")).read())
    info = {}

    # ---- the equality handler ---------------------------------------------------------------
    m = find(cyc, r"impl<'a>\s+RecursiveEqualityHandler<'a>", "impl RecursiveEqualityHandler")
    handler = block_after(cyc, m.end())
    m = find(handler, r"fn should_visit\(&mut self,([^)]*(?:\([^)]*\)[^)]*)*)\)\s*->\s*bool", "fn should_visit")
    params = [p for p in re.findall(r"(\w+)\s*:", m.group(1))]
    sv_body = block_after(handler, m.end())
    m = find(handler, r"fn visit\(&mut self\)\s*->\s*bool", "fn visit")
    visit = block_after(handler, m.end())
    calls = len(re.findall(r"self\.should_visit\(", visit))
    joined = len(re.findall(r"&&\s*self\.should_visit\(", visit))
    inserts_pair = len(params) == 2 and re.search(
        r"\.insert\(\(\s*%s\s*,\s*%s\s*\)\)" % (params[0], params[1]), sv_body) is not None
    inserts_one = len(params) == 1 and re.search(r"\.insert\(\s*%s\s*\)" % params[0], sv_body) is not None
    if inserts_pair and joined == 0 and calls >= 7:
        pair_keyed = True
    elif inserts_one and joined >= 7:
        pair_keyed = False
    else:
        die("should_visit: neither the pair-keyed nor the legacy shape (params=%r calls=%d joined=%d)"
            % (params, calls, joined))
    info["should_visit_params"] = params
    info["should_visit_calls"] = calls
    info["should_visit_joined_by_and"] = joined

    m = find(visit, r"\(VectorV\(l\),\s*VectorV\(r\)\)\s*=>", "the (VectorV, VectorV) arm")
    vec_arm = block_after(visit, m.end())
    vec_false = re.search(r"should_visit[^{]*\{[^{}]*\}\s*else\s*\{\s*return\s+false", vec_arm) is not None
    if "should_visit" not in vec_arm:
        die("the (VectorV, VectorV) arm does not consult should_visit any more")
    info["vector_arm_returns_false_on_revisit"] = vec_false

    # the list arm: the short cut and the identity under which lists are entered into `visited` (K11j)
    m = find(visit, r"\(ListV\(l\),\s*ListV\(r\)\)\s*=>", "the (ListV, ListV) arm")
    list_arm = block_after(visit, m.end())
    m = find(list_arm, r"if\s+(l\.ptr_eq\(&r\)[^{]*)\{\s*continue;", "the short cut of the (ListV, ListV) arm")
    shortcut = re.sub(r"\s+", " ", m.group(1)).strip()
    if "storage_ptr_eq" not in shortcut:
        die("list short cut no longer mentions storage_ptr_eq: " + shortcut)
    sc_next = re.search(
        r"\(\s*l\.storage_ptr_eq\(&r\)\s*&&\s*l\.next_ptr_as_usize\(\)\s*==\s*r\.next_ptr_as_usize\(\)\s*\)", shortcut) is not None
    sc_plain = re.fullmatch(r"l\.ptr_eq\(&r\) \|\| l\.storage_ptr_eq\(&r\)", shortcut) is not None
    if not sc_next and not sc_plain:
        die("list short cut has neither the known sound nor the known legacy shape: " + shortcut)
    # the inner fast path over the elements must use the same condition
    inner = re.search(r"llist\.storage_ptr_eq\(rlist\)(\s*&&\s*llist\.next_ptr_as_usize\(\)\s*==\s*rlist\.next_ptr_as_usize\(\))?", list_arm)
    if inner is None:
        die("the inner fast path of the list arm changed shape")
    if (inner.group(1) is not None) != sc_next:
        die("the inner fast path of the list arm and its short cut disagree about the next pointer")
    # the loop that pairs up the elements: besides the list short cut and the catch-all that queues the pair
    # only harmless on-the-spot comparisons of same-kind leaves are understood; a discriminant check is m1
    m = find(list_arm, r"for\s*\(lvalue,\s*rvalue\)\s*in\s*l\.iter\(\)\.zip\(r\.iter\(\)\)", "the element loop of the list arm")
    eloop = block_after(list_arm, m.end())
    if "self.left.push_back(a.clone())" not in eloop or "self.right.push_back(b.clone())" not in eloop:
        die("the element loop of the list arm no longer queues the pairs")
    leaf_arms = re.findall(
        r"\(SteelVal::(\w+)\(a\),\s*SteelVal::(\w+)\(b\)\)\s*=>\s*\{\s*if\s+a\s*!=\s*b\s*\{\s*return false;\s*\}\s*\}", eloop)
    for a, b in leaf_arms:
        if a != b or a not in ("IntV", "BoolV", "CharV", "NumV", "StringV", "SymbolV"):
            die("the element loop of the list arm compares (%s, %s) on the spot: not understood" % (a, b))
    disc_arms = re.findall(
        r"\(a,\s*b\)\s*if\s+core::mem::discriminant\(a\)\s*!=\s*core::mem::discriminant\(b\)\s*=>\s*\{\s*return false;\s*\}", eloop)
    n_ret = len(re.findall(r"return\s+false", eloop))
    if n_ret != len(leaf_arms) + len(disc_arms):
        die("the element loop of the list arm returns false in a way that is not understood (%d returns, %d leaf arms, "
            "%d discriminant arms)" % (n_ret, len(leaf_arms), len(disc_arms)))
    if "discriminant" in eloop and not disc_arms:
        die("the element loop of the list arm looks at discriminants in a way that is not understood")
    info["list_element_loop"] = {"leaf_arms": [a for a, _ in leaf_arms], "discriminant_reject": len(disc_arms)}

    m = find(list_arm, r"self\.should_visit\(([^;{]*)\)\s*(?:&&[^{]*)?\{", "should_visit in the list arm")
    vkey = re.sub(r"\s+", " ", m.group(1))
    by_head = "l.as_ptr_usize()" in vkey and "identity_tuple" not in list_arm
    by_tuple = "identity_tuple()" in vkey
    if by_head == by_tuple:
        die("list arm: visited key has neither the head-pointer nor the identity_tuple shape: " + vkey)
    # SteelVal::ptr_eq (eq?) has the same short cut
    m = find(rv, r"\(ListV\(l\),\s*ListV\(r\)\)\s*=>\s*\{\s*l\.ptr_eq\(r\)", "SteelVal::ptr_eq list arm")
    pe = rv[m.start():m.start() + 400]
    pe_next = re.search(r"l\.storage_ptr_eq\(r\)\s*&&\s*l\.next_ptr_as_usize\(\)\s*==\s*r\.next_ptr_as_usize\(\)", pe) is not None
    info["list_shortcut"] = shortcut
    info["list_visited_key"] = vkey
    info["ptr_eq_list_checks_next"] = pe_next

    heads = re.findall(r"\(\s*(?:SteelVal::)?(\w+)\((?:\w+)\)\s*,\s*(?:SteelVal::)?(\w+)\((?:\w+)\)\s*\)\s*=>", visit)
    same = sorted({a for a, b in heads if a == b})
    info["same_kind_arms"] = same
    for need in ["ListV", "Pair", "VectorV", "HashMapV", "HashSetV", "CustomStruct", "MutableVector",
                 "IntV", "NumV", "BoolV", "CharV", "StringV", "SymbolV", "BigNum", "Boxed", "HeapAllocated"]:
        if need not in same:
            die("the worklist lost its (%s, %s) arm" % (need, need))
    arms = {k: (k in same) for k in ["Rational", "BigRational", "Complex", "ByteVector", "BoxedFunction"]}

    # ---- hashing ----------------------------------------------------------------------------
    m = find(rv, r"impl Hash for SteelVal\s*\{", "impl Hash for SteelVal")
    hv = block_after(rv, m.start())
    if not re.search(r"NumV\(n\)\s*=>\s*n\.to_string\(\)\.hash\(state\)", hv):
        die("impl Hash for SteelVal: the NumV arm no longer hashes the printed number")
    zero = re.search(r"NumV\(n\)\s+if\s+\*n\s*==\s*0\.0\s*=>\s*0\.0f64\.to_string\(\)\.hash\(state\)", hv) is not None
    if "discriminant(self).hash(state)" not in hv:
        die("impl Hash for SteelVal: no discriminant hash")
    vec_guard = re.search(
        r"if\s+!matches!\(self,\s*VectorV\(_\)\s*\|\s*MutableVector\(_\)\)\s*\{\s*core::mem::discriminant\(self\)\.hash\(state\);\s*\}",
        hv) is not None
    m1 = find(hv, r"\bVectorV\(v\)\s*=>", "Hash: VectorV arm")
    m2 = find(hv, r"\bMutableVector\(vec\)\s*=>", "Hash: MutableVector arm")
    a1 = hv[m1.end():hv.find("\n            Void", m1.end())]
    a2 = hv[m2.end():hv.find("\n            BoxedIterator", m2.end())]
    shape1 = (".len().hash(state)" in a1, "for_each(|value| value.hash(state))" in a1)
    shape2 = (".len().hash(state)" in a2, "for_each(|value| value.hash(state))" in a2)
    vec_unified = vec_guard and shape1 == shape2 and shape1[1]
    legacy_vec = (not vec_guard) and "v.hash(state)" in a1 and "vec.get().hash(state)" in a2
    if not vec_unified and not legacy_vec:
        die("impl Hash for SteelVal: vector arms have neither the unified nor the legacy shape")
    info["hash_vector_arms"] = [a1.strip()[:80], a2.strip()[:80]]

    unordered = []
    for ty in ["SteelHashMap", "SteelHashSet"]:
        m = find(rv, r"impl Hash for %s\s*\{" % ty, "impl Hash for " + ty)
        body = block_after(rv, m.start())
        direct = re.search(r"for\s+\w+\s+in\s+self\.iter\(\)\s*\{\s*\w+\.hash\(state\);\s*\}", body) is not None
        call = re.search(r"(\w+)\(self\.iter\(\),\s*state\)", body)
        if call:
            fm = find(rv, r"fn %s\b" % call.group(1), "fn " + call.group(1))
            fb = block_after(rv, fm.end())
            comm = "wrapping_add" in fb and re.search(r"DefaultHasher::new\(\)", fb) is not None
        else:
            comm = False
        if comm and not direct:
            unordered.append(True)
        elif direct and not comm:
            unordered.append(False)
        else:
            die("impl Hash for %s: neither the order-independent nor the legacy shape" % ty)
    hash_unordered = all(unordered)
    if any(unordered) != hash_unordered:
        die("hash maps and hash sets hash differently from each other")

    cfg = {
        "pairKeyed": pair_keyed,
        "vecRevisitFalse": vec_false,
        "armRational": arms["Rational"],
        "armBigRational": arms["BigRational"],
        "armComplex": arms["Complex"],
        "armByteVector": arms["ByteVector"],
        "armBoxedFunction": arms["BoxedFunction"],
        "listShortcutChecksNext": sc_next and pe_next,
        "listVisitedByHead": by_head,
        "listInnerKindReject": len(disc_arms) > 0,
        "hashZeroUnified": zero,
        "hashUnordered": hash_unordered,
        "hashVecUnified": vec_unified,
    }
    info["cfg"] = cfg
    fields = ", ".join("%s := %s" % (k, "true" if v else "false") for k, v in cfg.items())
    text = (
        "-- GENERATED by translate/c11_cfg.py from /repo on every run of ./check C11.  Do not edit.\n"
        "import SteelVerif.C11.Model\n"
        "namespace SteelVerif.C11\n\n"
        "/-- The configuration of `RecursiveEqualityHandler` / `impl Hash` that the code currently has. -/\n"
        "def codeCfg : Cfg :=\n  { %s }\n\n"
        "end SteelVerif.C11\n" % fields
    )
    old = open(OUT).read() if os.path.exists(OUT) else None
    if old != text:
        with open(OUT, "w") as f:
            f.write(text)
    print(json.dumps(info))


if __name__ == "__main__":
    main()
