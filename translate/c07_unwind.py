#!/usr/bin/env python3
"""C07 translator (recovery machine): regenerate lean/SteelVerif/C07/GenUnwind.lean from steel_vm/vm.rs.

Extracted, by position inside the named Rust functions (comments stripped):
  unwindTestFirst   in `execute_rooted`'s unwind loop (`while let Some(mut last) = ...stack_frames.pop()`): does the
                    `if vm_instance.pop_count == 0 { return Err(e); }` test come BEFORE `vm_instance.pop_count -= 1`?
  nestedTestFirst   the same question for `call_with_instructions_and_reset_state` (`if self.pop_count == 0 {` ... `break`
                    before `self.pop_count -= 1`)
  unwindClears      `self.stack.clear()` follows the unwind loop of `execute_rooted` before `return Err(e)`
  countedPaths      for every function that pushes a frame AND counts it (`pop_count += 1`): is there a fallible step
                    (`?`, `stop!`, `builtin_stop!`) between the push and the count?   (name, fallibleBetween)
  uncountedPaths    functions that push a frame and never count it (the callee runs in a nested instance that starts
                    with pop_count = 1): is there a fallible step between the push and the nested run, and is the frame
                    taken back when that step fails?   (name, fallibleAfterPush, frameTakenBackOnFailure)
  buildRestoresMacros  compiler/compiler.rs `compile_raw_program` gives the macro environment back when the build fails
                    (its `is_err()` branch assigns `self.macro_env` or calls `rollback_macro_env()`), AND
                    steel_vm/engine.rs `raw_program_to_executable` does so when symbol resolution fails
The model (Model.lean) follows these facts: `unwind` branches on Gen.unwindTestFirst, the `callbackArity` instruction
exists because some uncounted path is fallible after its push without taking the frame back.  Props.lean holds the
obligations (`gen_unwind_order`, `gen_counted_paths`, `gen_uncounted_paths_as_modelled`) that stop checking when the source moves.

usage: c07_unwind.py [REPO] [OUT]     prints one JSON object on its last stdout line; exits non-zero when the shapes it
                                      looks for are not found (a broken tie, not silence)
"""
import json
import os
import re
import sys

REPO = sys.argv[1] if len(sys.argv) > 1 else "/repo"
OUT = sys.argv[2] if len(sys.argv) > 2 else "/verif/lean/SteelVerif/C07/GenUnwind.lean"
VM = os.path.join(REPO, "crates/steel-core/src/steel_vm/vm.rs")


def die(msg):
    sys.stderr.write("c07_unwind: " + msg + "\n")
    print(json.dumps({"error": msg}))
    sys.exit(2)


def strip_comments(src):
    src = re.sub(r"/\*.*?\*/", lambda m: re.sub(r"[^\n]", " ", m.group(0)), src, flags=re.S)
    return re.sub(r"//[^\n]*", "", src)


def fn_bodies(src):
    """name -> list of bodies (text between the braces) of every `fn name`"""
    out = {}
    for m in re.finditer(r"\bfn\s+([A-Za-z0-9_]+)\s*(?:<[^>{]*>)?\s*\(", src):
        i = src.find("{", m.end())
        # skip a where clause / return type: the first `{` after the parameter list's closing paren at depth 0
        depth, j = 1, m.end()
        while j < len(src) and depth:
            depth += {"(": 1, ")": -1}.get(src[j], 0)
            j += 1
        i = src.find("{", j)
        semi = src.find(";", j)
        if i < 0 or (0 <= semi < i):
            continue
        depth, k = 1, i + 1
        while k < len(src) and depth:
            depth += {"{": 1, "}": -1}.get(src[k], 0)
            k += 1
        out.setdefault(m.group(1), []).append(src[i + 1:k - 1])
    return out


def main():
    try:
        src = strip_comments(open(VM, encoding="utf-8").read())
    except OSError as e:
        die("cannot read %s: %s" % (VM, e))
    fns = fn_bodies(src)

    def body(name):
        if name not in fns:
            die("fn %s not found in vm.rs" % name)
        return fns[name][0]

    # --- the two unwind loops
    ex = body("execute_rooted")
    m = re.search(r"while\s+let\s+Some\(mut\s+last\)\s*=\s*vm_instance\.thread\.stack_frames\.pop\(\)\s*\{", ex)
    if not m:
        die("execute_rooted: unwind loop not found")
    loop = ex[m.end():]
    t = re.search(r"if\s+vm_instance\.pop_count\s*==\s*0\s*\{\s*return\s+Err\(e\);\s*\}", loop)
    d = re.search(r"vm_instance\.pop_count\s*-=\s*1\s*;", loop)
    if not t or not d:
        die("execute_rooted: the `pop_count == 0` early return or the decrement is gone (test=%s, decrement=%s)" % (bool(t), bool(d)))
    unwind_test_first = t.start() < d.start()
    after = ex[m.end():]
    c = re.search(r"self\.stack\.clear\(\)\s*;[^;]*?;?\s*return\s+Err\(e\)\s*;", after, re.S)
    unwind_clears = bool(c)
    ne = body("call_with_instructions_and_reset_state")
    m2 = re.search(r"while\s+let\s+Some\(mut\s+last\)\s*=\s*self\.thread\.stack_frames\.pop\(\)\s*\{", ne)
    if not m2:
        die("call_with_instructions_and_reset_state: unwind loop not found")
    loop2 = ne[m2.end():]
    t2 = re.search(r"if\s+self\.pop_count\s*==\s*0\s*\{", loop2)
    d2 = re.search(r"self\.pop_count\s*-=\s*1\s*;", loop2)
    if not t2 or not d2:
        die("call_with_instructions_and_reset_state: test or decrement not found")
    nested_test_first = t2.start() < d2.start()

    # --- frame pushes and their counting
    push_re = re.compile(r"stack_frames\s*\.push\(")
    count_re = re.compile(r"pop_count\s*\+=\s*1\s*;")
    fallible_re = re.compile(r"\?\s*;|\bstop!\s*\(|\bbuiltin_stop!\s*\(")
    counted, uncounted = [], []
    for name in sorted(fns):
        for b in fns[name]:
            pushes = [x.start() for x in push_re.finditer(b)]
            if not pushes:
                continue
            if name in ("execute_rooted", "call_with_instructions_and_reset_state"):
                continue            # the unwind loops put the handler's frame back (modelled in `unwind`)
            counts = [x.start() for x in count_re.finditer(b)]
            if counts:
                # the last push that precedes the first count after it (cfg variants push in two places, count once)
                cnt = next((c for c in counts if c > pushes[0]), None)
                if cnt is None:
                    die("fn %s: a frame is pushed after the last `pop_count += 1`" % name)
                last_push = max(p for p in pushes if p < cnt)
                between = b[last_push:cnt]
                # skip the push expression itself (its arguments may contain `?`-free code only)
                counted.append((name, bool(fallible_re.search(between[between.find(";") + 1:] if ";" in between else ""))))
            else:
                tail = b[pushes[-1]:]
                tail = tail[tail.find(";") + 1:]
                nested = re.search(r"call_with_instructions_and_reset_state\s*\(", tail)
                seg = tail[:nested.start()] if nested else tail
                fall = bool(fallible_re.search(seg))
                takes_back = bool(re.search(r"stack_frames\s*\.pop\(\)|discard_uncounted_frame", seg))
                uncounted.append((name, fall, takes_back))
    if not counted or not uncounted:
        die("no counted / uncounted frame pushes found (counted=%d, uncounted=%d)" % (len(counted), len(uncounted)))

    # --- the build: is the macro environment given back by a failed build?
    def read(rel):
        try:
            return strip_comments(open(os.path.join(REPO, "crates/steel-core/src", rel), encoding="utf-8").read())
        except OSError as e:
            die("cannot read %s: %s" % (rel, e))
    comp = fn_bodies(read("compiler/compiler.rs"))
    eng = fn_bodies(read("steel_vm/engine.rs"))
    if "compile_raw_program" not in comp or "raw_program_to_executable" not in eng:
        die("compile_raw_program / raw_program_to_executable not found")

    def err_branch(body):
        m = re.search(r"if\s+\w+\.is_err\(\)\s*\{", body)
        if not m:
            return None
        depth, k = 1, m.end()
        while k < len(body) and depth:
            depth += {"{": 1, "}": -1}.get(body[k], 0)
            k += 1
        return body[m.end():k - 1]
    eb1, eb2 = err_branch(comp["compile_raw_program"][0]), err_branch(eng["raw_program_to_executable"][0])
    if eb1 is None or eb2 is None:
        die("the `if res.is_err()` roll-back branch of compile_raw_program / raw_program_to_executable is gone")
    if "compiled_modules" not in eb1 or "rollback_metadata" not in eb1 or "roll_back" not in eb2 or "rollback_metadata" not in eb2:
        die("the roll-back branches no longer restore the module table / the symbol map")
    restores = re.compile(r"rollback_macro_env\s*\(|\.macro_env\s*=")
    build_restores_macros = bool(restores.search(eb1)) and bool(restores.search(eb2))

    def b(x):
        return "true" if x else "false"
    lean = ["/- GENERATED by translate/c07_unwind.py from %s — do not edit -/" % os.path.relpath(VM, REPO),
            "namespace SteelVerif.C07.Gen", "",
            "/-- `execute_rooted`: the `pop_count == 0` early return is tested before `pop_count -= 1` -/",
            "def unwindTestFirst : Bool := %s" % b(unwind_test_first), "",
            "/-- `call_with_instructions_and_reset_state`: the same order in the nested unwind loop -/",
            "def nestedTestFirst : Bool := %s" % b(nested_test_first), "",
            "/-- `self.stack.clear()` precedes the `return Err(e)` that follows the unwind loop -/",
            "def unwindClears : Bool := %s" % b(unwind_clears), "",
            "/-- functions that push a frame and count it: (name, a fallible step lies between push and count) -/",
            "def countedPaths : List (String × Bool) := [" + ", ".join('("%s", %s)' % (n, b(f)) for n, f in counted) + "]", "",
            "/-- functions that push a frame and leave the counting to a nested instance:",
            "(name, a fallible step follows the push, the frame is taken back when that step fails) -/",
            "def uncountedPaths : List (String × Bool × Bool) := [" + ", ".join('("%s", %s, %s)' % (n, b(f), b(k)) for n, f, k in uncounted) + "]", "",
            "/-- a failed build gives the macro environment back (compile_raw_program and raw_program_to_executable) -/",
            "def buildRestoresMacros : Bool := %s" % b(build_restores_macros), "",
            "end SteelVerif.C07.Gen", ""]
    text = "\n".join(lean)
    old = None
    try:
        old = open(OUT, encoding="utf-8").read()
    except OSError:
        pass
    if old != text:
        with open(OUT, "w", encoding="utf-8") as f:
            f.write(text)
    print(json.dumps({"unwindTestFirst": unwind_test_first, "nestedTestFirst": nested_test_first, "unwindClears": unwind_clears,
                      "countedPaths": counted, "uncountedPaths": uncounted, "buildRestoresMacros": build_restores_macros}))


main()
