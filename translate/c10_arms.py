#!/usr/bin/env python3
"""C10 translator: regenerate lean/SteelVerif/C10/GenArms.lean from the Rust sources.

Extracted from crates/steel-core/src/primitives/numbers.rs and crates/steel-core/src/rvals.rs:
  * for every numeric function the model follows, the list of `match` arms as pairs of value kinds
    (with the flags `guarded`, `specific` (literal / `@` sub-pattern) and the class of the arm body:
    compute / false / error), so that Lean can decide that every pair of exact kinds is handled by a
    computing arm (a deleted arm, like the missing `(Rational, BigRational)` of `multiply_two`,
    makes the `decide` in Props fail);
  * the three configuration flags of `Model.Cfg`: whether `abs`, the reciprocal of `/` and `expt`
    contain the unchecked idioms (`i.abs()`, `Rational32::new(1, n)` / `r.recip()` without an
    `i32::MIN` guard, `Ratio<i32>::pow` / `new_raw(1, ..)`) or their repaired forms.

usage: c10_arms.py [REPO] [OUT]   prints one JSON object (what was extracted) on stdout.
An extraction that no longer parses exits non-zero: that is a broken tie, not silence.
"""
import json
import os
import re
import sys

REPO = sys.argv[1] if len(sys.argv) > 1 else "/repo"
OUT = sys.argv[2] if len(sys.argv) > 2 else "/verif/lean/SteelVerif/C10/GenArms.lean"
KINDS = ["IntV", "BigNum", "Rational", "BigRational", "NumV", "Complex"]


def die(msg):
    sys.stderr.write("c10_arms: " + msg + "\n")
    sys.exit(2)


def strip_comments(s):
    return re.sub(r"//[^\n]*", "", s)


def matching(s, i, open_c, close_c):
    """index just after the bracket matching s[i] (which must be open_c)."""
    depth = 0
    j = i
    while j < len(s):
        c = s[j]
        if c == open_c:
            depth += 1
        elif c == close_c:
            depth -= 1
            if depth == 0:
                return j + 1
        elif c == '"':
            j += 1
            while j < len(s) and s[j] != '"':
                if s[j] == "\\":
                    j += 1
                j += 1
        elif c == "'" and j + 2 < len(s) and s[j + 2] == "'":
            j += 2
        j += 1
    die("unbalanced %s" % open_c)


def fn_body(src, header_re):
    m = re.search(header_re, src)
    if not m:
        die("function not found: " + header_re)
    i = src.index("{", m.end() - 1)
    return src[i:matching(src, i, "{", "}")]


def match_body(body, scrutinee_re):
    m = re.search(r"match\s+" + scrutinee_re + r"\s*\{", body)
    if not m:
        die("match not found: " + scrutinee_re)
    i = m.end() - 1
    return body[i + 1:matching(body, i, "{", "}") - 1]


def split_top(s, sep):
    """split on `sep` at bracket depth 0."""
    out, depth, cur, i = [], 0, "", 0
    while i < len(s):
        c = s[i]
        if c in "([{":
            depth += 1
        elif c in ")]}":
            depth -= 1
        if depth == 0 and s.startswith(sep, i):
            out.append(cur)
            cur = ""
            i += len(sep)
            continue
        cur += c
        i += 1
    out.append(cur)
    return out


def arms_of(mbody):
    """[(pattern_text, body_text)] of a match body."""
    s = mbody
    arms = []
    i = 0
    n = len(s)
    while True:
        while i < n and s[i] in " \n\t,":
            i += 1
        if i >= n:
            break
        # attributes such as #[cfg(..)] in front of an arm
        if s.startswith("#[", i):
            i = matching(s, i + 1, "[", "]")
            continue
        # pattern up to `=>` at depth 0
        depth = 0
        j = i
        while j < n:
            c = s[j]
            if c in "([{":
                depth += 1
            elif c in ")]}":
                depth -= 1
            elif depth == 0 and s.startswith("=>", j):
                break
            j += 1
        if j >= n:
            break
        pat = s[i:j].strip()
        j += 2
        while j < n and s[j] in " \n\t":
            j += 1
        if j < n and s[j] == "{":
            k = matching(s, j, "{", "}")
            body = s[j:k]
        else:
            depth = 0
            k = j
            while k < n:
                c = s[k]
                if c in "([{":
                    depth += 1
                elif c in ")]}":
                    depth -= 1
                elif c == "," and depth == 0:
                    break
                k += 1
            body = s[j:k]
        arms.append((pat, body))
        i = k
    return arms


def pos_alts(p):
    """one tuple position -> list of (kind, specific)."""
    res = []
    for alt in split_top(p, "|"):
        alt = alt.strip()
        # `name @ pattern` binds the whole value: the kind is that of the sub-pattern
        mb = re.match(r"^[a-z_][A-Za-z0-9_]*\s*@\s*(.*)$", alt, re.S)
        if mb:
            alt = mb.group(1).strip()
        # a parenthesised group of alternatives
        if alt.startswith("(") and matching(alt, 0, "(", ")") == len(alt):
            res += pos_alts(alt[1:-1])
            continue
        m = re.match(r"^(?:SteelVal::)?(\w+)\s*\((.*)\)$", alt, re.S)
        if m and m.group(1) in KINDS:
            inner = m.group(2).strip()
            specific = not re.match(r"^(_|[a-z_][A-Za-z0-9_]*)$", inner)
            res.append((m.group(1), specific))
        elif m:
            res.append(("Other", False))
        elif re.match(r"^(_|[a-z_][A-Za-z0-9_]*)$", alt):
            res.append(("Any", False))
        else:
            die("pattern not understood: " + alt)
    return res


def body_class(b):
    t = b.strip()
    if re.search(r"unreachable!|stop!\s*\(\s*TypeMismatch|steelerr!\s*\(\s*TypeMismatch|=>\s*None\b", "=> " + t) and \
            not re.search(r"into_steelval|partial_cmp|==", t):
        return "error"
    if re.match(r"^\{?\s*(steelerr!|stop!)", t) and "TypeMismatch" in t:
        return "error"
    core = t.strip("{} \n\t")
    if core.endswith("None") and ".partial_cmp(" not in t and "Some(" not in t:
        return "error"
    if t in ("false", "{ false }", "None"):
        return "false" if t != "None" else "error"
    return "compute"


def binary_arms(mbody):
    out = []
    for pat, body in arms_of(mbody):
        guarded = False
        parts = re.split(r"\)\s+if\s", pat, maxsplit=1)
        if len(parts) == 2:
            guarded = True
            pat = parts[0] + ")"
        cls = body_class(body)
        for alt in split_top(pat, "|"):
            alt = alt.strip()
            if alt.startswith("("):
                inner = alt[1:matching(alt, 0, "(", ")") - 1]
                ps = split_top(inner, ",")
                if len(ps) != 2:
                    die("tuple pattern of arity %d: %s" % (len(ps), alt))
                for (k1, s1) in pos_alts(ps[0]):
                    for (k2, s2) in pos_alts(ps[1]):
                        out.append((k1, k2, guarded or s1 or s2, cls))
            elif re.match(r"^(_|[a-z_][A-Za-z0-9_]*)$", alt):
                out.append(("Any", "Any", guarded, cls))
            else:
                die("arm pattern not understood: " + alt)
    return out


def unary_arms(mbody):
    out = []
    for pat, body in arms_of(mbody):
        guarded = False
        parts = re.split(r"\)\s+if\s", pat, maxsplit=1)
        if len(parts) == 2:
            guarded = True
            pat = parts[0] + ")"
        cls = body_class(body)
        for (k, s) in pos_alts(pat):
            out.append((k, guarded or s, cls))
    return out


def main():
    numbers = strip_comments(open(os.path.join(REPO, "crates/steel-core/src/primitives/numbers.rs")).read())
    rvals = strip_comments(open(os.path.join(REPO, "crates/steel-core/src/rvals.rs")).read())
    tables2 = {}
    tables1 = {}
    for name, scrut in [("add_two", r"\(x,\s*y\)"), ("add_two_fallible", r"\(x,\s*y\)"),
                        ("multiply_two", r"\(x,\s*y\)"),
                        ("truncate_quotient", r"\(&args\[0\],\s*&args\[1\]\)"),
                        ("truncate_remainder", r"\(&args\[0\],\s*&args\[1\]\)"),
                        ("floor_remainder", r"\(&args\[0\],\s*&args\[1\]\)"),
                        ("expt", r"\(left,\s*right\)")]:
        body = fn_body(numbers, r"fn\s+%s\s*\(" % name)
        tables2[name] = binary_arms(match_body(body, scrut))
    tables2["number_equality"] = binary_arms(
        match_body(fn_body(rvals, r"pub fn number_equality\s*\("), r"\(left,\s*right\)"))
    po = fn_body(rvals, r"impl PartialOrd for SteelVal\s*")
    tables2["partial_cmp"] = binary_arms(match_body(po, r"\(self,\s*other\)"))
    for name, scrut in [("negate", "value"), ("abs", "number"), ("numerator", "number"),
                        ("denominator", "number")]:
        body = fn_body(numbers, r"fn\s+%s\s*\(" % name)
        tables1[name] = unary_arms(match_body(body, scrut))
    div = fn_body(numbers, r"pub fn divide_primitive\s*\(")
    tables1["recip"] = unary_arms(match_body(div, "x"))
    for k, v in list(tables2.items()) + list(tables1.items()):
        if len(v) < 3:
            die("suspiciously few arms extracted for %s" % k)

    # ---- configuration flags -----------------------------------------------------------------
    abs_body = fn_body(numbers, r"fn\s+abs\s*\(")
    if re.search(r"IntV\(\s*i\.abs\(\)\s*\)", abs_body) and re.search(r"SteelVal::Rational\(f\)\s*=>\s*f\.abs\(\)", abs_body):
        abs_checked = False
    elif "checked_abs" in abs_body and not re.search(r"IntV\(\s*i\.abs\(\)\s*\)", abs_body) \
            and not re.search(r"SteelVal::Rational\(f\)\s*=>\s*f\.abs\(\)", abs_body):
        abs_checked = True
    else:
        die("abs: neither the unchecked nor the repaired idiom recognised")
    unchecked_int = re.search(r"Ok\(n\)\s*=>\s*Rational32::new\(1,\s*n\)", div)
    unchecked_rat = re.search(r"SteelVal::Rational\(r\)\s*=>\s*r\.recip\(\)", div) and "i32::MIN" not in div
    if unchecked_int and unchecked_rat:
        recip_checked = False
    elif div.count("i32::MIN") >= 2 and not unchecked_int:
        recip_checked = True
    else:
        die("divide_primitive/recip: neither the unchecked nor the repaired idiom recognised")
    expt_body = fn_body(numbers, r"fn\s+expt\s*\(")
    raw = len(re.findall(r"new_raw\(", expt_body))
    ratpow = re.search(r"Ok\(r\)\s*=>\s*l\.pow\(r\)\.into_steelval\(\)", expt_body)
    zero_big = re.search(r"IntV\(l\),\s*SteelVal::BigNum\(r\)\)\s*=>\s*\{\s*if l\.is_zero\(\)\s*\{\s*stop!", expt_body)
    if raw >= 4 and ratpow and zero_big:
        expt_checked = False
    elif raw == 0 and not zero_big and "Rational(l), SteelVal::IntV(r)" in expt_body and \
            not re.search(r"SteelVal::Rational\(l\),\s*SteelVal::IntV\(r\)\)\s*=>\s*match i32::try_from", expt_body):
        expt_checked = True
    else:
        die("expt: neither the unchecked nor the repaired idiom recognised")

    # ---- render ----------------------------------------------------------------------------
    def b(x):
        return "true" if x else "false"

    lines = [
        "/-",
        "GENERATED by translate/c10_arms.py from /repo/crates/steel-core/src/{primitives/numbers.rs,rvals.rs}.",
        "Do not edit by hand: it is rewritten (only when its content changes) on every run of `./check C10`.",
        "-/",
        "import SteelVerif.C10.Model",
        "namespace SteelVerif.C10.Gen",
        "",
        "/-- kind in a Rust pattern position. -/",
        "inductive PK where",
        "  | IntV | BigNum | Rational | BigRational | NumV | Complex | Other | Any",
        "  deriving DecidableEq, Repr",
        "",
        "/-- what the body of an arm does. -/",
        "inductive Body where",
        "  | compute | retFalse | error",
        "  deriving DecidableEq, Repr",
        "",
        "/-- one alternative of a two-operand arm: kinds, `conditional` (guard / literal sub-pattern), body. -/",
        "structure Arm2 where",
        "  l : PK",
        "  r : PK",
        "  conditional : Bool",
        "  body : Body",
        "",
        "structure Arm1 where",
        "  k : PK",
        "  conditional : Bool",
        "  body : Body",
        "",
        "/-- which of the three repairs are present in the source (see `Cfg`). -/",
        "def cfg : Cfg := ⟨%s, %s, %s⟩" % (b(abs_checked), b(recip_checked), b(expt_checked)),
        "",
    ]
    bmap = {"compute": ".compute", "false": ".retFalse", "error": ".error"}
    for name, arms in tables2.items():
        lines.append("def arms_%s : List Arm2 := [" % name)
        lines.append(",\n".join("  ⟨.%s, .%s, %s, %s⟩" % (a, c, b(g), bmap[cl]) for (a, c, g, cl) in arms))
        lines.append("]\n")
    for name, arms in tables1.items():
        lines.append("def arms_%s : List Arm1 := [" % name)
        lines.append(",\n".join("  ⟨.%s, %s, %s⟩" % (a, b(g), bmap[cl]) for (a, g, cl) in arms))
        lines.append("]\n")
    lines.append("end SteelVerif.C10.Gen")
    text = "\n".join(lines) + "\n"
    old = open(OUT).read() if os.path.exists(OUT) else None
    if old != text:
        with open(OUT, "w") as f:
            f.write(text)
    print(json.dumps({
        "cfg": {"absChecked": abs_checked, "recipChecked": recip_checked, "exptChecked": expt_checked},
        "arms": {k: len(v) for k, v in list(tables2.items()) + list(tables1.items())},
        "rewritten": old != text,
    }))


if __name__ == "__main__":
    main()
