#!/usr/bin/env python3
"""C08 translator: the decisions of the real code that the Lean models of C08 are parameterised by.

Reads (never writes)
  /repo/crates/steel-core/src/scheme/modules/parameters.scm
      * the comparison `common-tail` and the two loops of `do-wind` apply to winders lists: `equal?`, or a helper
        of the shape (lambda (x y) (if (null? x) (null? y) (if (null? y) #f (if (CMP (car x) (car y)) (SELF (cdr x)
        (cdr y)) #f)))) with CMP = eq? / equal?;
      * the call/cc wrapper skips `do-wind` only under `(eq? save (get-tls winders))`;
      * the error handler inside `dynamic-wind` pops winders, calls `out`, re-raises;
  /repo/crates/steel-core/src/steel_vm/vm.rs
      * error unwind (execute / call_with_instructions_and_reset_state): is the continuation mark of a popped frame
        closed (close_continuation_marks before the mark is forgotten) or taken first (`.take()` ⇒ never closed);
      * Continuation::set_state_from_continuation, open path: the condition under which the mark is closed when its
        own frame is popped (`weak_count == 1 && strong_count > 1`, or `strong_count > 1`);
      * handler found with no frame below: is a dummy frame pushed;
      * both unwind loops: is the handler uninstalled from its frame before it runs on it (`handler.take()` in the
        test, or `attachments.handler = None` before the frame is pushed back);
      * do continuations keep the instructions of their top-level form alive (`current_root` / `root`).
and regenerates lean/SteelVerif/C08/GenCode.lean.  Prints what it extracted (JSON).  An extraction that no longer
parses exits 2 (broken tie).
"""
import json
import os
import re
import sys

VERIF = os.path.dirname(os.path.dirname(os.path.abspath(__file__)))
sys.path.insert(0, VERIF)
from gen.cont08 import parse_forms, unparse  # noqa: E402

REPO = os.environ.get("C08_REPO", "/repo") + "/crates/steel-core/src"


def die(msg):
    print("c08_code: cannot extract: " + msg, file=sys.stderr)
    sys.exit(2)


def find_define(forms, name):
    for f in forms:
        if isinstance(f, list) and len(f) >= 3 and f[0] == "define" and f[1] == name:
            return f[2]
    die("no (define %s …)" % name)


def subterms(x):
    yield x
    if isinstance(x, list):
        for y in x:
            yield from subterms(y)


def helper_cmp(forms, name):
    """CMP of a same-winders?-shaped helper."""
    d = find_define(forms, name)
    want = lambda cmp: ["lambda", ["x", "y"], ["if", ["null?", "x"], ["null?", "y"],
                        ["if", ["null?", "y"], "#f",
                         ["if", [cmp, ["car", "x"], ["car", "y"]], [name, ["cdr", "x"], ["cdr", "y"]], "#f"]]]]
    for cmp in ("eq?", "equal?", "eqv?"):
        if d == want(cmp):
            return cmp
    die("helper %s does not have the expected shape: %s" % (name, unparse(d)))


def kind_of(forms, test):
    if test == "equal?":
        return "equal"
    cmp = helper_cmp(forms, test)
    return {"eq?": "eq", "eqv?": "eq", "equal?": "equal"}[cmp]


def scheme_part():
    src = open(os.path.join(REPO, "scheme/modules/parameters.scm")).read()
    forms = parse_forms(src)
    ct = find_define(forms, "common-tail")
    tests = []
    for t in subterms(ct):
        if isinstance(t, list) and len(t) == 4 and t[0] == "if" and t[2] == "x" and isinstance(t[3], list) and t[3][:1] == ["loop"]:
            if not (isinstance(t[1], list) and len(t[1]) == 3 and t[1][1:] == ["x", "y"]):
                die("common-tail test: " + unparse(t[1]))
            tests.append(("common-tail", t[1][0]))
    if len(tests) != 1:
        die("common-tail loop not found")
    dw = find_define(forms, "do-wind")
    n = 0
    for t in subterms(dw):
        if isinstance(t, list) and len(t) >= 3 and t[0] == "when" and isinstance(t[1], list) and t[1][:1] == ["not"]:
            inner = t[1][1]
            if not (isinstance(inner, list) and len(inner) == 3 and inner[1:] == ["ls", "tail"]):
                die("do-wind test: " + unparse(inner))
            tests.append(("do-wind", inner[0]))
            n += 1
    if n != 2:
        die("do-wind: expected two loops, found %d" % n)
    kinds = {kind_of(forms, t) for _, t in tests}
    if len(kinds) != 1:
        die("common-tail and do-wind use different comparisons: %s" % tests)
    cc = find_define(forms, "call/cc")
    guard = any(t == ["unless", ["eq?", "save", ["get-tls", "winders"]], ["do-wind", "save"]] for t in subterms(cc))
    dyn = find_define(forms, "dynamic-wind")
    handler_ok = False
    guarded = False
    pop = ["set-tls!", "winders", ["cdr", ["get-tls", "winders"]]]
    for t in subterms(dyn):
        if isinstance(t, list) and t[:2] == ["lambda", ["err"]]:
            body = [b for b in t[2:] if b != "void"]
            if body == [pop, ["out"], ["raise-error", "err"]]:
                handler_ok = True
            # guarded form: the extent is left only if its entry is still the head of winders
            elif body == [["when", ["if", ["pair?", ["get-tls", "winders"]], ["eq?", ["car", ["get-tls", "winders"]], "entry"], "#f"],
                           ["begin", pop, ["out"]]], ["raise-error", "err"]]:
                handler_ok = True
                guarded = True
    push_ok = any(t == ["set-tls!", "winders", ["cons", ["cons", "in", "out"], ["get-tls", "winders"]]] for t in subterms(dyn)) or (
        any(t == ["let", [["entry", ["cons", "in", "out"]]]] or (isinstance(t, list) and t[:2] == ["let", [["entry", ["cons", "in", "out"]]]]) for t in subterms(dyn))
        and any(t == ["set-tls!", "winders", ["cons", "entry", ["get-tls", "winders"]]] for t in subterms(dyn)))
    normal_ok = False
    for t in subterms(dyn):
        if isinstance(t, list) and t[:1] == ["let"] and isinstance(t[1], list) and t[1] and isinstance(t[1][0], list) and t[1][0][0] == "ans*":
            normal_ok = t[2:] == [["set-tls!", "winders", ["cdr", ["get-tls", "winders"]]], ["out"], "ans*"]
    return {"tests": tests, "cmp": kinds.pop(), "wrapper_guard_eq": guard, "wind_handler_pops_runs_out_reraises": handler_ok,
            "wind_pushes_fresh_pair": push_ok, "wind_normal_pops_runs_out": normal_ok, "wind_handler_guarded": guarded}


def strip_line_comments(src):
    return "\n".join(l.split("//", 1)[0] if l.lstrip().startswith("//") or "//" in l and l.split("//", 1)[0].count('"') % 2 == 0 else l
                     for l in src.split("\n"))


def rust_part():
    src = strip_line_comments(open(os.path.join(REPO, "steel_vm/vm.rs")).read())
    # --- error unwind loops
    loops = [m.start() for m in re.finditer(r"while let Some\(mut last\) = (?:\w+\.)+stack_frames\.pop\(\)", src)]
    if len(loops) != 2:
        die("expected two error-unwind loops, found %d" % len(loops))
    close_on_unwind = []
    dummy = []
    walks = []
    uninstalled = []
    for st in loops:
        body = src[st:st + 6000]
        c = body.find("close_continuation_marks(&last)")
        if c < 0:
            die("unwind loop without close_continuation_marks(&last)")
        # Every frame an error drops goes through this loop: the loop is the FIRST thing the error branch does
        # (no path that clears or truncates the frames before it), and up to the point where the mark is closed
        # the only way out of the loop body is the `pop_count == 0` guard (frames of an enclosing instance).
        head = src[src.rfind("if let Err(", 0, st):st]
        first = re.fullmatch(r"if let Err\((?:mut )?e\) = result \{\s*", head) is not None
        seg = body[:c]
        exits = [m.start() for m in re.finditer(r"\breturn\b|\bbreak\b|\bcontinue\b", seg)]
        guarded = len(exits) == 1 and 0 <= seg.find("pop_count == 0") < exits[0]
        walks.append(first and guarded)
        take = body.find("weak_continuation_mark.take()")
        close_on_unwind.append(not (0 <= take < c))
        # the handler test of the loop: `if let Some(handler) = last…handler… {`.  The handler must be UNINSTALLED
        # from the frame before the frame is pushed back to run the handler on it (`Model.unwind`: handler := none):
        # either the test itself takes it (`handler.take()`), or the branch sets `attachments.handler = None`
        # before `stack_frames.push(last)`.  Otherwise an error raised by the handler comes back to the same handler.
        hm = re.search(r"if let Some\(handler\) =\s*last\b[^{;]*\{", body)
        if not hm or "handler" not in hm.group(0)[len("if let Some(handler)"):]:
            die("unwind loop without handler search")
        h = hm.start()
        hb = body[h:h + 2500]
        branch_end = body.find("continue 'outer;", hm.end())
        push = body.find("stack_frames.push(last)", hm.end())
        if branch_end < 0 or push < 0 or push > branch_end:
            die("unwind loop: the handler branch does not push the frame back and continue 'outer")
        taken = "handler.take()" in hm.group(0)
        cleared = re.search(r"attachments\.handler\s*=\s*None", body[hm.end():push]) is not None
        uninstalled.append(taken or cleared)
        dummy.append(bool(re.search(r"stack_frames\.is_empty\(\)\s*\{[^}]*?stack_frames\.push\(\s*StackFrame::new\(", hb, re.S)))
    if len(set(close_on_unwind)) != 1 or len(set(dummy)) != 1:
        die("the two unwind loops differ: close=%s dummy=%s" % (close_on_unwind, dummy))
    # frames dropped elsewhere on the error path without closing their marks
    bypass = len(re.findall(r"stack_frames\s*\.clear\(\)", src[loops[0] - 1500:loops[0]])) > 0
    # --- open path of set_state_from_continuation
    m = re.search(r"pub fn set_state_from_continuation\(ctx: &mut VmCore<'_>, this: Self\)", src)
    if not m:
        die("Continuation::set_state_from_continuation not found")
    body = src[m.start():m.start() + 5000]
    c = body.find("Self::close_marks(ctx, &stack_frame)")
    if c < 0:
        die("open path: close_marks call not found")
    cond = body[body.rfind("if ", 0, c):c]
    cond_txt = " ".join(cond.split())
    if "strong_count > 1" not in cond_txt:
        die("open path: unexpected condition: " + cond_txt)
    close_when_shared = "weak_count" not in cond_txt
    # --- do continuations keep the instructions of their top-level form alive (finding K08h)?  SteelThread::execute
    # publishes them in `current_root`, the three constructors of continuations clone it, restoring a closed
    # continuation makes its root the current one.
    keeps_root = (len(re.findall(r"root:\s*self\s*\.thread\s*\.current_root\s*\.clone\(\)", src)) >= 3
                  and re.search(r"self\s*\.current_root\s*\.replace\(\s*instructions\.clone\(\)\s*\)", src) is not None
                  and re.search(r"self\.thread\.current_root\s*=\s*continuation\.root", src) is not None
                  and re.search(r"continuation\.root\s*=\s*open\.root\.clone\(\)", src) is not None)
    return {"close_on_unwind": close_on_unwind[0] and all(walks) and not bypass, "mark_closed_before_taken": close_on_unwind[0],
            "unwind_walks_every_frame": all(walks) and not bypass,
            "handler_uninstalled_before_it_runs": all(uninstalled), "handler_uninstalled_per_loop": uninstalled,
            "dummy_frame": dummy[0], "close_when_shared": close_when_shared, "continuation_keeps_root": keeps_root,
            "open_path_condition": cond_txt}


def main():
    s = scheme_part()
    r = rust_part()
    b = lambda x: "true" if x else "false"
    out = """/- GENERATED by translate/c08_code.py from /repo (parameters.scm, steel_vm/vm.rs) — do not edit.
extracted: %s
           %s -/
import SteelVerif.C08.Wind
import SteelVerif.C08.Model
namespace SteelVerif.C08.GenCode
open SteelVerif.C08

/-- The comparison `common-tail` and `do-wind` apply to winders entries. -/
def codeCmp : Wind.CmpKind := .%s
/-- The call/cc wrapper skips `do-wind` only under `(eq? save winders)`. -/
def wrapperGuardEq : Bool := %s
/-- dynamic-wind: conses a fresh `(in . out)`; on normal return pops winders and runs `out`; its exception
handler pops winders, runs `out` and raises the error again. -/
def windPushesFreshPair : Bool := %s
def windNormalPopsRunsOut : Bool := %s
def windHandlerPopsRunsOutReraises : Bool := %s
/-- … and does so only if the extent's entry is still the head of winders (repair of K08g). -/
def windHandlerGuarded : Bool := %s

/-- vm.rs: a continuation holds the instructions of the top-level form its frames return into (K08h). -/
def continuationKeepsRoot : Bool := %s

/-- vm.rs: both unwind loops take the handler off the frame before the handler runs on it (`Model.unwind`). -/
def handlerUninstalled : Bool := %s

/-- vm.rs: what the VM model is parameterised by.  closeOnUnwind = the mark of a popped frame is closed before it is
taken AND every frame an error drops goes through the unwind loop (no path that clears the frames before it). -/
def codeCfg : Model.Cfg := { closeOnUnwind := %s, closeWhenShared := %s, dummyFrame := %s }

end SteelVerif.C08.GenCode
""" % (json.dumps(s), json.dumps(r), s["cmp"], b(s["wrapper_guard_eq"]), b(s["wind_pushes_fresh_pair"]),
       b(s["wind_normal_pops_runs_out"]), b(s["wind_handler_pops_runs_out_reraises"]), b(s["wind_handler_guarded"]),
       b(r["continuation_keeps_root"]), b(r["handler_uninstalled_before_it_runs"]), b(r["close_on_unwind"]), b(r["close_when_shared"]), b(r["dummy_frame"]))
    path = os.path.join(VERIF, "lean", "SteelVerif", "C08", "GenCode.lean")
    old = open(path).read() if os.path.exists(path) else None
    if old != out:
        with open(path, "w") as f:
            f.write(out)
    print(json.dumps({"scheme": s, "vm": r}))


if __name__ == "__main__":
    main()
