#!/usr/bin/env python3
"""C11 translator 2: regenerate lean/SteelVerif/C11/GenPrim.lean from the Rust sources of the collection primitives.

The model P of the primitives (lean/SteelVerif/C11/Prim.lean) transcribes the bodies of
crates/steel-core/src/primitives/{lists,vectors,hashmaps,hashsets,strings,bytevectors}.rs and of `drop` in
scheme/stdlib.scm.  This translator reads those bodies again on every run and records, as the value
`codePrim : PrimShape`, the facts about their SHAPE that P relies on (which operand order the four ownership
branches of `hm_union` use, that `hashset-difference` is `symmetric_difference`, that `last` indexes from the
length, that `take` rebuilds the prefix, that n-ary `append` replaces an empty first list, the order and the form
of the bound checks of `list-ref` / `vector-ref` / `vector-set!` / `bytes-set!` / `string-ref` / `bounds`, …).
`SteelVerif/C11/GenSound.lean` decides `codePrim = PrimShape.modelled`: when a primitive changes shape the
obligation stops checking (and the correspondence run says whether behaviour changed too).

usage: c11_prims.py [REPO] [OUT]   prints one JSON object on stdout; a body that no longer parses exits non-zero.
"""
import json
import os
import re
import sys

REPO = sys.argv[1] if len(sys.argv) > 1 else "/repo"
OUT = sys.argv[2] if len(sys.argv) > 2 else "/verif/lean/SteelVerif/C11/GenPrim.lean"
PRIM = "crates/steel-core/src/primitives"


def die(msg):
    sys.stderr.write("c11_prims: " + msg + "\n")
    sys.exit(2)


def strip_comments(s):
    return re.sub(r"//[^\n]*", "", s)


def block_after(s, start):
    i = s.find("{", start)
    if i < 0:
        die("no block after index %d" % start)
    depth, j = 0, i
    while j < len(s):
        c = s[j]
        if c == "{":
            depth += 1
        elif c == "}":
            depth -= 1
            if depth == 0:
                return s[i:j + 1]
        elif c == '"':
            j += 1
            while j < len(s) and s[j] != '"':
                if s[j] == "\\":
                    j += 1
                j += 1
        j += 1
    die("unbalanced block")


def fn_body(src, name, what=None):
    m = re.search(r"\bfn\s+%s\s*(?:<[^>]*>)?\s*\(" % re.escape(name), src)
    if not m:
        die("cannot find fn %s (%s)" % (name, what or ""))
    # the body starts after the signature: skip to the `{` that follows the closing `)` and the return type
    depth, j = 0, m.end() - 1
    while j < len(src):
        if src[j] == "(":
            depth += 1
        elif src[j] == ")":
            depth -= 1
            if depth == 0:
                break
        j += 1
    return re.sub(r"\s+", " ", block_after(src, j))


def has(body, pat):
    return re.search(pat, body) is not None


def main():
    rd = lambda f: strip_comments(open(os.path.join(REPO, PRIM, f)).read())
    lists, vectors, hashmaps, hashsets, strings, bytevectors = (rd(f + ".rs") for f in
                                                                ("lists", "vectors", "hashmaps", "hashsets", "strings", "bytevectors"))
    stdlib = open(os.path.join(REPO, "crates/steel-core/src/scheme/stdlib.scm")).read()
    info = {}
    shape = {}

    # ---- hm_union: four branches, each `<left>.union(<right>)` --------------------------------------------
    b = fn_body(hashmaps, "hm_union")
    left = r"(?:hml|l\.unwrap\(\)|left_side_value)"
    right = r"(?:hmr|r\.unwrap\(\)|right_side_value)"
    calls = re.findall(r"(\b(?:\w+\.unwrap\(\)|\w+))\.union\((\w+\.unwrap\(\)|\w+)\)", b)
    lr = sum(1 for x, y in calls if re.fullmatch(left, x) and re.fullmatch(right, y))
    rl = sum(1 for x, y in calls if re.fullmatch(right, x) and re.fullmatch(left, y))
    if lr + rl != len(calls):
        die("hm_union: a `.union(` call with operands that are not understood: %r" % (calls,))
    branches = len(re.findall(r"\((?:None|Some\(\w+\)), (?:None|Some\(\w+\))\) =>", b))
    info["hm_union_calls"] = calls
    shape["unionBranches"] = branches
    shape["unionLeftRight"] = lr
    shape["unionSwapped"] = rl

    # ---- hash maps ------------------------------------------------------------------------------------------
    b = fn_body(hashmaps, "hm_construct")
    shape["constructInsertsPairwise"] = has(b, r"\(Some\(key\), Some\(value\)\) => \{ hm\.insert\(key, value\); \}") and \
        has(b, r"\(None, None\) => break") and has(b, r"_ => \{ stop!\(ArityMismatch")
    b = fn_body(hashmaps, "hash_ref")
    shape["hashRefErrsOnMissing"] = has(b, r"match map\.get\(key\) \{ Some\(value\) => Ok\(value\.clone\(\)\), None => stop!")
    b = fn_body(hashmaps, "hash_try_get")
    shape["tryGetFalseOnMissing"] = has(b, r"match map\.get\(key\) \{ Some\(v\) => v\.clone\(\), None => SteelVal::BoolV\(false\)")
    b = fn_body(hashmaps, "hash_insert")
    shape["hashInsertBothBranchesInsert"] = has(b, r"m\.insert\(key, value\)") and has(b, r"m\.update\(key, value\)")
    b = fn_body(hashmaps, "hash_remove")
    shape["hashRemoveBothBranchesRemove"] = len(re.findall(r"m\.remove\(&key\)", b)) == 2
    shape["hashContainsIsContainsKey"] = has(fn_body(hashmaps, "hash_contains"), r"map\.contains_key\(key\)")
    shape["keysValuesIterate"] = has(fn_body(hashmaps, "keys_to_list"), r"hashmap\.keys\(\)\.cloned\(\)\.collect\(\)") and \
        has(fn_body(hashmaps, "values_to_list"), r"hashmap\.values\(\)\.cloned\(\)\.collect\(\)")

    # ---- hash sets ------------------------------------------------------------------------------------------
    b = fn_body(hashsets, "hs_construct")
    shape["hashsetConstructInserts"] = has(b, r"for key in args \{ hs\.insert\(key\.clone\(\)\); \}")
    b = fn_body(hashsets, "hashset_difference")
    shape["hashsetDifferenceSymmetric"] = has(
        b, r'#\[cfg\(feature = "imbl"\)\] SteelVal::HashSetV\(SteelHashSet\(Gc::new\( l\.0\.unwrap\(\)\.symmetric_difference\(r\.0\.unwrap\(\)\)')
    shape["hashsetUnionLeftRight"] = has(fn_body(hashsets, "hashset_union"), r"l\.0\.unwrap\(\)\.union\(r\.0\.unwrap\(\)\)")
    shape["hashsetInterLeftRight"] = has(fn_body(hashsets, "hashset_intersection"), r"l\.0\.unwrap\(\)\.intersection\(r\.0\.unwrap\(\)\)")
    shape["hashsetSubsetLeftRight"] = has(fn_body(hashsets, "hashset_is_subset"), r"left\.is_subset\(right\.0\.as_ref\(\)\)")

    # ---- lists ----------------------------------------------------------------------------------------------
    b = fn_body(lists, "list_ref")
    shape["listRefNegThenGet"] = has(b, r"if index < 0 \{ stop!") and has(b, r"list\.get\(index as usize\) \.cloned\(\) \.ok_or_else")
    b = fn_body(lists, "list_tail")
    shape["listTailIsTail"] = has(b, r"SteelVal::ListV\(l\) => l \.tail\(pos\) \.ok_or_else") and has(lists, r"pub fn list_tail\(list_or_pair: &SteelVal, pos: usize\)")
    b = fn_body(lists, "take")
    shape["takeNegThenRebuild"] = has(b, r"if n < 0 \{ stop!") and has(b, r"list\.iter\(\)\.take\(n as usize\)\.cloned\(\)\.collect\(\)")
    b = fn_body(lists, "last")
    shape["lastIndexesFromLength"] = has(b, r"list\.len\(\) \.checked_sub\(1\) \.and_then\(\|index\| list\.get\(index\)\)")
    b = fn_body(lists, "append")
    shape["appendEmptyFirstSpecialCase"] = has(b, r"if initial\.is_empty\(\) \{ \*initial = r\.clone\(\); continue; \}") and \
        has(b, r"initial\.append_mut\(r\.clone\(\)\)")
    b = fn_body(lists, "range")
    shape["rangeNegCheck"] = has(b, r"if lower < 0 \|\| upper < 0 \{ stop!") and has(b, r"\(lower\.\.upper\)\.map\(SteelVal::IntV\)") and \
        has(b, r"\[SteelVal::IntV\(upper\)\] => \(0, \*upper\)")
    b = fn_body(lists, "rest")
    shape["restErrsOnEmpty"] = has(b, r"if l\.is_empty\(\) \{ stop!")
    shape["reverseIsReverse"] = has(fn_body(lists, "reverse"), r"Ok\(SteelVal::ListV\(l\.reverse\(\)\)\)")
    m = re.search(r"\(define \(drop lst n\)(.*?)\n\n", stdlib, re.S)
    if not m:
        die("stdlib.scm: (define (drop lst n) not found")
    d = re.sub(r"\s+", " ", m.group(1))
    shape["dropIsCdrLoop"] = "(if (zero? n) lst (loop (cdr lst) (sub1 n)))" in d and "(if (< n 0) (error" in d

    # ---- vectors --------------------------------------------------------------------------------------------
    b = fn_body(vectors, "vec_ref")
    shape["vectorRefNegThenBound"] = has(b, r"if \*i < 0 \{ stop!") and has(b, r"if idx_usize >= guard\.len\(\) \{ stop!") and \
        has(b, r"if idx_usize < v\.len\(\) \{ Ok\(v\[idx_usize\]\.clone\(\)\)")
    b = fn_body(vectors, "mut_vec_set")
    shape["vectorSetGetMut"] = has(b, r"if let Some\(v\) = guard\.get_mut\(i\) \{ \*v = value; \} else \{ stop!") and \
        has(vectors, r"pub fn mut_vec_set\(vec: &HeapRef<Vec<SteelVal>>, i: usize, value: SteelVal\)")
    shape["vectorPushPushes"] = has(fn_body(vectors, "mut_vec_push"), r"\.value\.push\(args\[1\]\.clone\(\)\)")
    b = fn_body(vectors, "vector_append")
    shape["vectorAppendExtends"] = has(b, r"let mut vector = Vec::new\(\); for arg in args") and len(re.findall(r"vector\.extend\(", b)) == 2

    # ---- immutable vectors: the in-place and the copying branch ---------------------------------------------
    b = fn_body(vectors, "immutable_vector_set")
    shape["ivSetBoundCheckBothBranches"] = len(re.findall(r"if index >= v\.len\(\) \{ stop!", b)) == 2 and len(re.findall(r"v\.set\(index, value\)", b)) == 2
    b = fn_body(vectors, "immutable_vector_take")
    shape["ivTakeTruncateOrMin"] = has(b, r"v\.truncate\(count\)") and has(b, r"v\.take\(count\.min\(v\.len\(\)\)\)")
    b = fn_body(vectors, "immutable_vector_drop")
    shape["ivDropLoopOrSkip"] = has(b, r"for _ in 0\.\.count \{ v\.pop_front\(\); \}") and has(b, r"v\.skip\(count\)")
    b = fn_body(vectors, "immutable_vector_rest")
    shape["ivRestPopsFront"] = len(re.findall(r"v\.pop_front\(\)", b)) == 2
    b = fn_body(vectors, "immutable_vector_push")
    shape["ivPushPushesBack"] = len(re.findall(r"v\.push_back\(value\)", b)) == 2
    shape["ivAppendExtends"] = has(fn_body(vectors, "immutable_vector_append"), r"let mut vector = Vector::new\(\); while let Some\(vec\) = rest\.next\(\)\.transpose\(\)\? \{ vector\.extend\(vec\.iter\(\)\.cloned\(\)\); \}")

    # ---- byte vectors ---------------------------------------------------------------------------------------
    shape["bytesNewConvertsU8"] = has(fn_body(bytevectors, "bytes"), r"args\.iter\(\) \.map\(\|x\| u8::from_steelval\(x\)\) \.collect::<Result<Vec<_>>>\(\)")
    b = fn_body(bytevectors, "bytes_ref")
    shape["bytesRefGet"] = has(b, r"guard \.get\(index\) \.ok_or_else") and has(bytevectors, r"pub fn bytes_ref\(value: &SteelByteVector, index: usize\)")
    b = fn_body(bytevectors, "bytes_set")
    shape["bytesSetBoundCheck"] = has(b, r"if index >= guard\.len\(\) \{ stop!") and has(b, r"guard\[index\] = byte;") and \
        has(bytevectors, r"pub fn bytes_set\(value: &mut SteelByteVector, index: usize, byte: u8\)")
    shape["bytesPushU8"] = has(bytevectors, r"pub fn bytes_push\(value: &mut SteelByteVector, byte: u8\)") and \
        has(fn_body(bytevectors, "bytes_push"), r"guard\.push\(byte\)")
    shape["bytesAppendExtends"] = has(fn_body(bytevectors, "bytes_append"), r"while let Some\(bytes\) = rest\.next\(\)\.transpose\(\)\? \{ let borrow = bytes\.vec\.read\(\); vector\.extend\(&\*borrow\); \}")

    # ---- strings --------------------------------------------------------------------------------------------
    b = fn_body(strings, "string_ref")
    shape["stringRefGuardsByteLen"] = has(b, r"if index < value\.len\(\) \{ value\.chars\(\)\.nth\(index\) \} else \{ None \}") and \
        has(strings, r"pub fn string_ref\(value: &SteelString, index: usize\)")
    b = fn_body(strings, "bounds")
    checks = [r"let i = i\.unwrap_or\(0\); if i < 0 \{ stop!", r"if i > s\.len\(\) \{ stop!", r"if j < 0 \{ stop!",
              r"if i > \(j as usize\) \{ stop!", r"\.char_indices\(\) \.map\(\|\(offset, _\)\| offset\) \.chain\(once\(s\.len\(\)\)\)",
              r"let Some\(start\) = char_offsets\.nth\(i\) else \{ stop!", r"return Ok\(start\.\.s\.len\(\)\)",
              r"once\(start\)\.chain\(char_offsets\)", r"let Some\(end\) = char_offsets\.nth\(j - i\) else \{ stop!", r"Ok\(start\.\.end\)"]
    pos = []
    for c in checks:
        m = re.search(c, b)
        pos.append(m.start() if m else -1)
    shape["boundsChecksInOrder"] = all(p >= 0 for p in pos) and pos == sorted(pos)
    info["bounds_check_positions"] = pos
    b = fn_body(strings, "substring")
    shape["substringUsesBounds"] = has(b, r'bounds\(value\.as_str\(\), Some\(i as isize\), j, "substring"\)\?') and \
        has(b, r"value\[range\]\.into\(\)") and has(re.sub(r"\s+", " ", strings), r"pub fn substring\( value: &SteelString, i: usize,")
    b = fn_body(strings, "string_to_list")
    shape["stringToListUsesBounds"] = has(b, r'bounds\(value\.as_str\(\), i, j, "string->list"\)\?') and has(b, r"value\[range\] \.chars\(\)")
    shape["stringLengthCountsChars"] = has(fn_body(strings, "string_length"), r"value\.chars\(\)\.count\(\)")
    shape["stringAppendFolds"] = has(fn_body(strings, "string_append"), r'try_fold\("".to_string\(\), \|accum, next\| Ok\(accum \+ next\?\.as_str\(\)\)\)')

    info["shape"] = shape

    def lean(v):
        return ("true" if v else "false") if isinstance(v, bool) else str(v)
    fields = ",\n    ".join("%s := %s" % (k, lean(v)) for k, v in shape.items())
    text = (
        "-- GENERATED by translate/c11_prims.py from /repo on every run of ./check C11.  Do not edit.\n"
        "import SteelVerif.C11.Prim\n"
        "namespace SteelVerif.C11\n\n"
        "/-- The shape of the collection primitives that the code currently has. -/\n"
        "def codePrim : PrimShape :=\n  { %s }\n\n"
        "end SteelVerif.C11\n" % fields
    )
    old = open(OUT).read() if os.path.exists(OUT) else None
    if old != text:
        with open(OUT, "w") as f:
            f.write(text)
    print(json.dumps(info))


if __name__ == "__main__":
    main()
